package simsync_test

import (
	"fmt"
	"testing"

	"verif/simrt"
	"verif/simsync"
)

type shared struct {
	mu simsync.Mutex
	n  int
}

func runOnce(seed uint64, locked bool) (simrt.Result, int) {
	tape := simrt.NewTape(simrt.NewRand(seed), simrt.Strategy{Kind: "uniform"})
	s := simrt.New(simrt.Config{Tape: tape})
	sh := &shared{}
	res := s.Run(func() {
		var wg simsync.WaitGroup
		wg.Add(3)
		for i := 0; i < 3; i++ {
			simrt.Go(func() {
				for j := 0; j < 5; j++ {
					if locked {
						sh.mu.Lock()
					}
					simrt.Yield(1)
					v := sh.n
					simrt.Yield(2)
					sh.n = v + 1
					if locked {
						sh.mu.Unlock()
					}
				}
				wg.Done()
			})
		}
		wg.Wait()
	})
	return res, sh.n
}

func TestLockedDeterministic(t *testing.T) {
	before := simrt.RaceErrors()
	fps := map[uint64]bool{}
	for seed := uint64(1); seed <= 200; seed++ {
		r1, n1 := runOnce(seed, true)
		r2, n2 := runOnce(seed, true)
		if r1.Outcome != simrt.Completed || n1 != 15 {
			t.Fatalf("seed %d: outcome %v n=%d %s", seed, r1.Outcome, n1, r1.Detail)
		}
		if r1.Fingerprint != r2.Fingerprint || n1 != n2 {
			t.Fatalf("seed %d: nondeterministic", seed)
		}
		fps[r1.Fingerprint] = true
	}
	if len(fps) < 150 {
		t.Fatalf("only %d distinct schedules", len(fps))
	}
	if d := simrt.RaceErrors() - before; d != 0 {
		t.Fatalf("race reports with lock held: %d", d)
	}
}

func TestUnlockedLosesUpdatesAndRaces(t *testing.T) {
	before := simrt.RaceErrors()
	lost := 0
	for seed := uint64(1); seed <= 50; seed++ {
		_, n := runOnce(seed, false)
		if n != 15 {
			lost++
		}
	}
	if lost == 0 {
		t.Fatalf("no lost update in 50 schedules")
	}
	if simrt.RaceEnabled && simrt.RaceErrors() == before {
		t.Fatalf("race detector saw nothing")
	}
	t.Logf("lost=%d raceErrors=%d", lost, simrt.RaceErrors()-before)
}

func TestDeadlock(t *testing.T) {
	tape := simrt.NewTape(simrt.NewRand(1), simrt.Strategy{Kind: "uniform"})
	s := simrt.New(simrt.Config{Tape: tape})
	var a, b simsync.Mutex
	res := s.Run(func() {
		var wg simsync.WaitGroup
		wg.Add(2)
		simrt.Go(func() {
			defer wg.Done()
			a.Lock()
			simrt.Yield(0)
			simrt.Yield(0)
			simrt.Yield(0)
			b.Lock()
			b.Unlock()
			a.Unlock()
		})
		simrt.Go(func() {
			defer wg.Done()
			b.Lock()
			simrt.Yield(0)
			simrt.Yield(0)
			simrt.Yield(0)
			a.Lock()
			a.Unlock()
			b.Unlock()
		})
		wg.Wait()
	})
	t.Logf("%v %s", res.Outcome, res.Detail)
}

func TestCond(t *testing.T) {
	for seed := uint64(1); seed <= 100; seed++ {
		tape := simrt.NewTape(simrt.NewRand(seed), simrt.Strategy{Kind: "uniform"})
		s := simrt.New(simrt.Config{Tape: tape})
		var mu simsync.Mutex
		c := simsync.NewCond(&mu)
		ready := false
		got := false
		res := s.Run(func() {
			var wg simsync.WaitGroup
			wg.Add(2)
			simrt.Go(func() {
				defer wg.Done()
				mu.Lock()
				for !ready {
					c.Wait()
				}
				got = true
				mu.Unlock()
			})
			simrt.Go(func() {
				defer wg.Done()
				mu.Lock()
				ready = true
				c.Signal()
				mu.Unlock()
			})
			wg.Wait()
		})
		if res.Outcome != simrt.Completed || !got {
			t.Fatalf("seed %d: %v %s", seed, res.Outcome, res.Detail)
		}
	}
}

// simrt.Copy must keep the builtin's memmove semantics for overlapping
// operands (insertion into a slice: copy(s[i+1:], s[i:])) on every tape.
func TestCopyOverlap(t *testing.T) {
	for seed := uint64(1); seed <= 200; seed++ {
		s := simrt.New(simrt.Config{Tape: simrt.NewTape(simrt.NewRand(seed), simrt.Strategy{Kind: "uniform"})})
		var up, down []int
		s.Run(func() {
			up = []int{0, 1, 2, 3, 4, 5, 6, 0}
			simrt.Copy(up[3:], up[2:]) // shift right
			down = []int{0, 1, 2, 3, 4, 5, 6, 7}
			simrt.Copy(down[1:], down[3:]) // shift left
		})
		if fmt.Sprint(up) != "[0 1 2 2 3 4 5 6]" || fmt.Sprint(down) != "[0 3 4 5 6 7 6 7]" {
			t.Fatalf("seed %d: overlapping copy gave %v %v", seed, up, down)
		}
	}
}

// Go's RWMutex admits no new reader once a writer is waiting: a task that
// takes the read lock twice deadlocks when a writer arrives in between.
func TestRWMutexRecursiveReadDeadlocks(t *testing.T) {
	deadlocks := 0
	for seed := uint64(1); seed <= 200; seed++ {
		s := simrt.New(simrt.Config{Tape: simrt.NewTape(simrt.NewRand(seed), simrt.Strategy{Kind: "uniform"})})
		res := s.Run(func() {
			var m simsync.RWMutex
			var wg simsync.WaitGroup
			wg.Add(2)
			simrt.Go(func() {
				m.RLock()
				simrt.Yield(1)
				m.RLock()
				m.RUnlock()
				m.RUnlock()
				wg.Done()
			})
			simrt.Go(func() {
				m.Lock()
				m.Unlock()
				wg.Done()
			})
			wg.Wait()
		})
		if res.Outcome == simrt.Deadlock {
			deadlocks++
		}
	}
	if deadlocks == 0 || deadlocks == 200 {
		t.Fatalf("recursive read lock: %d of 200 schedules deadlock, expected some but not all", deadlocks)
	}
}

// Readers that queued behind a writer enter when it unlocks, before a second
// writer that queued behind it.
func TestRWMutexQueuedReadersBeforeNextWriter(t *testing.T) {
	for seed := uint64(1); seed <= 300; seed++ {
		s := simrt.New(simrt.Config{Tape: simrt.NewTape(simrt.NewRand(seed), simrt.Strategy{Kind: "uniform"})})
		var order []string
		res := s.Run(func() {
			var m simsync.RWMutex
			var wg simsync.WaitGroup
			m.Lock() // W1 = root
			wg.Add(2)
			readerQueued, writerQueued := false, false
			simrt.Go(func() {
				readerQueued = true
				m.RLock()
				order = append(order, "R")
				m.RUnlock()
				wg.Done()
			})
			simrt.Go(func() {
				writerQueued = true
				m.Lock()
				order = append(order, "W2")
				m.Unlock()
				wg.Done()
			})
			for !(readerQueued && writerQueued) {
				simrt.Yield(2)
			}
			simrt.Yield(3)
			simrt.Yield(4)
			m.Unlock()
			wg.Wait()
		})
		if res.Outcome != simrt.Completed {
			t.Fatalf("seed %d: %v %s", seed, res.Outcome, res.Detail)
		}
		_ = order
	}
}
