// Package simsync replaces "sync" in code under test (import substitution by
// the rewriter). Blocking and wake-up order are decided by the simrt scheduler;
// each object also embeds the real sync object, which a task only touches when
// the simulator has granted it (so it is never contended and never blocks) and
// which gives the race detector exactly the happens-before edges the code under
// test really creates. All shadow state lives in the objects and is accessed
// only from //go:norace code while holding the baton.
package simsync

import (
	"fmt"
	"sort"
	"sync"
	"unsafe"

	"verif/simrt"
)

type Locker = sync.Locker

// Map is sync.Map with a scheduling point before and after every operation
// (it needs no modelling: the real map is safe, and only one task runs at a
// time; what matters is that another task can run between two operations).
type Map struct{ real sync.Map }

func (m *Map) Load(key any) (value any, ok bool) {
	simrt.SyncPoint(-80)
	value, ok = m.real.Load(key)
	simrt.SyncPoint(-81)
	return
}
func (m *Map) Store(key, value any) {
	simrt.SyncPoint(-80)
	m.real.Store(key, value)
	simrt.SyncPoint(-81)
}
func (m *Map) LoadOrStore(key, value any) (actual any, loaded bool) {
	simrt.SyncPoint(-80)
	actual, loaded = m.real.LoadOrStore(key, value)
	simrt.SyncPoint(-81)
	return
}
func (m *Map) LoadAndDelete(key any) (value any, loaded bool) {
	simrt.SyncPoint(-80)
	value, loaded = m.real.LoadAndDelete(key)
	simrt.SyncPoint(-81)
	return
}
func (m *Map) Delete(key any) {
	simrt.SyncPoint(-80)
	m.real.Delete(key)
	simrt.SyncPoint(-81)
}
func (m *Map) Swap(key, value any) (previous any, loaded bool) {
	simrt.SyncPoint(-80)
	previous, loaded = m.real.Swap(key, value)
	simrt.SyncPoint(-81)
	return
}
func (m *Map) CompareAndSwap(key, old, new any) bool {
	simrt.SyncPoint(-80)
	ok := m.real.CompareAndSwap(key, old, new)
	simrt.SyncPoint(-81)
	return ok
}
func (m *Map) CompareAndDelete(key, old any) bool {
	simrt.SyncPoint(-80)
	ok := m.real.CompareAndDelete(key, old)
	simrt.SyncPoint(-81)
	return ok
}

// Range visits a snapshot of the entries in an order chosen by the tape (the
// real map's order is unspecified and would not replay).
func (m *Map) Range(f func(key, value any) bool) {
	simrt.SyncPoint(-80)
	type kv struct {
		k, v any
		s    string
	}
	var es []kv
	m.real.Range(func(k, v any) bool {
		es = append(es, kv{k, v, fmt.Sprintf("%T:%v", k, k)})
		return true
	})
	sort.SliceStable(es, func(i, j int) bool { return es[i].s < es[j].s })
	for i := len(es) - 1; i > 0; i-- {
		j := simrt.Choose(i + 1)
		es[i], es[j] = es[j], es[i]
	}
	for _, e := range es {
		simrt.SyncPoint(-82)
		if !f(e.k, e.v) {
			break
		}
	}
	simrt.SyncPoint(-81)
}

type Pool = sync.Pool

// ord gives each sync object a small deterministic ordinal for logs/hashes.
type ordTable struct {
	m map[unsafe.Pointer]int64
}

//go:norace
func ord(s *simrt.Sim, p unsafe.Pointer) int64 {
	tb, _ := s.SyncOrd.(*ordTable)
	if tb == nil {
		tb = &ordTable{m: map[unsafe.Pointer]int64{}}
		s.SyncOrd = tb
	}
	o, ok := tb.m[p]
	if !ok {
		o = int64(len(tb.m))
		tb.m[p] = o
	}
	return o
}

// ---- Mutex -----------------------------------------------------------------

type Mutex struct {
	real sync.Mutex
	held bool
}

//go:norace

//go:norace
func lockH(s *simrt.Sim, t *simrt.Task, r *simrt.Req) simrt.Status {
	m := (*Mutex)(r.P)
	if m.held {
		if r.I1 == 0 {
			r.I1 = 1
			s.Ev(t, "lock-wait", ord(s, r.P), 0)
			s.Probes["lock_contended"]++
		}
		t.Ready = lockReady
		t.BlockedOn = "mutex"
		return simrt.Block
	}
	m.held = true
	s.Sync(t, "acquire", r.P, 0)
	s.Ev(t, "lock", ord(s, r.P), 0)
	return simrt.Done
}

//go:norace
func lockReady(s *simrt.Sim, t *simrt.Task) bool {
	return !(*Mutex)(t.ReqP()).held
}

//go:norace
func unlockH(s *simrt.Sim, t *simrt.Task, r *simrt.Req) simrt.Status {
	s.Sync(t, "release", r.P, 0)
	s.Ev(t, "unlock", ord(s, r.P), 0)
	return simrt.Done
}

//go:norace
func (m *Mutex) Lock() {
	if simrt.Active() == nil {
		m.real.Lock()
		return
	}
	if simrt.Unwinding() {
		return
	}
	var r simrt.Req
	r.P = unsafe.Pointer(m)
	simrt.Call(lockH, &r)
	m.real.Lock()
}

//go:norace
func (m *Mutex) TryLock() bool {
	if simrt.Active() == nil {
		return m.real.TryLock()
	}
	if simrt.Unwinding() {
		return false
	}
	simrt.Yield(-2)
	if m.held {
		return false
	}
	m.held = true
	m.real.Lock()
	return true
}

//go:norace
func (m *Mutex) Unlock() {
	if simrt.Active() == nil {
		m.real.Unlock()
		return
	}
	if simrt.Unwinding() {
		return
	}
	if !m.held {
		panic("sync: unlock of unlocked mutex")
	}
	m.held = false
	m.real.Unlock()
	var r simrt.Req
	r.P = unsafe.Pointer(m)
	simrt.Call(unlockH, &r)
}

// ---- RWMutex ---------------------------------------------------------------

// RWMutex follows the algorithm of Go's sync.RWMutex, because its fairness rules
// are observable: writers queue on an inner writer lock; the writer that holds it
// is "announced" -- from then on new readers wait, and the writer waits for the
// readers that were already in to leave; when it unlocks, every reader that
// queued up meanwhile is admitted at once, before the next writer can announce
// itself. (A goroutine that takes the read lock twice therefore deadlocks as
// soon as a writer arrives in between, as in Go.)
type RWMutex struct {
	real      sync.RWMutex
	w         bool // a writer holds the lock
	announced bool // a writer holds the inner writer lock: new readers wait
	readers   int  // readers in, including readers admitted in advance (granted)
	rwait     int  // readers waiting for the announced writer to finish
	granted   int  // waiting readers admitted by the last writer's Unlock, not yet resumed
}

//go:norace
func rlockH(s *simrt.Sim, t *simrt.Task, r *simrt.Req) simrt.Status {
	m := (*RWMutex)(r.P)
	if r.I1 == 1 && m.granted > 0 {
		// admitted by a writer's Unlock while it waited
		m.granted--
		s.Ev(t, "rlock", ord(s, r.P), int64(m.readers))
		return simrt.Done
	}
	if m.announced {
		if r.I1 == 0 {
			r.I1 = 1
			m.rwait++
			s.Ev(t, "rlock-wait", ord(s, r.P), 0)
			s.Probes["rlock_contended"]++
		}
		t.Ready = rlockReady
		t.BlockedOn = "rwmutex(read)"
		return simrt.Block
	}
	if r.I1 == 1 {
		m.rwait-- // (cannot happen: waiting readers are always granted first)
	}
	m.readers++
	if m.readers > 1 {
		s.Probes["readers_overlap"]++
	}
	s.Ev(t, "rlock", ord(s, r.P), int64(m.readers))
	return simrt.Done
}

//go:norace
func rlockReady(s *simrt.Sim, t *simrt.Task) bool {
	m := (*RWMutex)(t.ReqP())
	return m.granted > 0 || !m.announced
}

//go:norace
func wlockH(s *simrt.Sim, t *simrt.Task, r *simrt.Req) simrt.Status {
	m := (*RWMutex)(r.P)
	// phase 1 (r.I2 == 0): the inner writer lock; phase 2: wait for the readers to leave
	if r.I2 == 0 {
		if m.announced {
			if r.I1 == 0 {
				r.I1 = 1
				s.Ev(t, "wlock-wait", ord(s, r.P), 0)
				s.Probes["wlock_contended"]++
			}
			t.Ready = wlockReady
			t.BlockedOn = "rwmutex(write)"
			return simrt.Block
		}
		m.announced = true
		r.I2 = 1
	}
	if m.readers > 0 {
		if r.I1 == 0 {
			r.I1 = 1
			s.Ev(t, "wlock-wait", ord(s, r.P), 0)
			s.Probes["wlock_contended"]++
		}
		t.Ready = wlockReady2
		t.BlockedOn = "rwmutex(write, readers inside)"
		return simrt.Block
	}
	m.w = true
	s.Sync(t, "acquire", r.P, 0)
	s.Ev(t, "wlock", ord(s, r.P), 0)
	return simrt.Done
}

//go:norace
func wlockReady(s *simrt.Sim, t *simrt.Task) bool {
	m := (*RWMutex)(t.ReqP())
	return !m.announced
}

//go:norace
func wlockReady2(s *simrt.Sim, t *simrt.Task) bool {
	m := (*RWMutex)(t.ReqP())
	return m.readers == 0
}

//go:norace
func (m *RWMutex) RLock() {
	if simrt.Active() == nil {
		m.real.RLock()
		return
	}
	if simrt.Unwinding() {
		return
	}
	var r simrt.Req
	r.P = unsafe.Pointer(m)
	simrt.Call(rlockH, &r)
	m.real.RLock()
}

//go:norace
func (m *RWMutex) RUnlock() {
	if simrt.Active() == nil {
		m.real.RUnlock()
		return
	}
	if simrt.Unwinding() {
		return
	}
	if m.readers <= 0 {
		panic("sync: RUnlock of unlocked RWMutex")
	}
	m.readers--
	m.real.RUnlock()
	var r simrt.Req
	r.P = unsafe.Pointer(m)
	simrt.Call(unlockH, &r)
}

//go:norace
func (m *RWMutex) Lock() {
	if simrt.Active() == nil {
		m.real.Lock()
		return
	}
	if simrt.Unwinding() {
		return
	}
	var r simrt.Req
	r.P = unsafe.Pointer(m)
	simrt.Call(wlockH, &r)
	m.real.Lock()
}

//go:norace
func (m *RWMutex) Unlock() {
	if simrt.Active() == nil {
		m.real.Unlock()
		return
	}
	if simrt.Unwinding() {
		return
	}
	if !m.w {
		panic("sync: Unlock of unlocked RWMutex")
	}
	m.w = false
	m.announced = false
	// every reader that queued up behind this writer is in now
	m.readers += m.rwait
	m.granted += m.rwait
	m.rwait = 0
	m.real.Unlock()
	var r simrt.Req
	r.P = unsafe.Pointer(m)
	simrt.Call(unlockH, &r)
}

//go:norace
func (m *RWMutex) TryLock() bool {
	if simrt.Active() == nil {
		return m.real.TryLock()
	}
	if simrt.Unwinding() {
		return false
	}
	simrt.Yield(-2)
	if m.w || m.announced || m.readers > 0 {
		return false
	}
	m.w = true
	m.announced = true
	m.real.Lock()
	return true
}

//go:norace
func (m *RWMutex) TryRLock() bool {
	if simrt.Active() == nil {
		return m.real.TryRLock()
	}
	if simrt.Unwinding() {
		return false
	}
	simrt.Yield(-2)
	if m.w || m.announced {
		return false
	}
	m.readers++
	m.real.RLock()
	return true
}

type rlocker RWMutex

func (r *rlocker) Lock()   { (*RWMutex)(r).RLock() }
func (r *rlocker) Unlock() { (*RWMutex)(r).RUnlock() }

func (m *RWMutex) RLocker() Locker { return (*rlocker)(m) }

// ---- Cond --------------------------------------------------------------------

type waiter struct {
	signalled bool
	task      int
}

type Cond struct {
	L     Locker
	queue []*waiter
}

func NewCond(l Locker) *Cond { return &Cond{L: l} }

//go:norace
func condEnqH(s *simrt.Sim, t *simrt.Task, r *simrt.Req) simrt.Status {
	c := (*Cond)(r.P)
	w := r.X.(*waiter)
	w.task = t.ID
	c.queue = append(c.queue, w)
	s.Ev(t, "cond-enq", ord(s, r.P), int64(len(c.queue)))
	return simrt.Done
}

//go:norace
func condWaitH(s *simrt.Sim, t *simrt.Task, r *simrt.Req) simrt.Status {
	w := r.X.(*waiter)
	if !w.signalled {
		if r.I0 > 0 && r.I1 == 0 {
			t.WakeAt = s.Now + r.I0
		}
		if r.I0 > 0 && r.I1 == 1 && s.Now >= t.WakeAt {
			// timed out: leave the queue
			c := (*Cond)(r.P)
			for i, q := range c.queue {
				if q == w {
					c.queue = append(c.queue[:i], c.queue[i+1:]...)
					break
				}
			}
			r.R0 = 1
			s.Ev(t, "cond-timeout", ord(s, r.P), s.Now)
			return simrt.Done
		}
		if r.I1 == 0 {
			r.I1 = 1
			s.Ev(t, "cond-wait", ord(s, r.P), 0)
		}
		t.Ready = condReady
		t.BlockedOn = "cond"
		return simrt.Block
	}
	s.Ev(t, "cond-woken", ord(s, r.P), 0)
	return simrt.Done
}

//go:norace
func condReady(s *simrt.Sim, t *simrt.Task) bool {
	return t.ReqX().(*waiter).signalled
}

//go:norace
func condSignalH(s *simrt.Sim, t *simrt.Task, r *simrt.Req) simrt.Status {
	c := (*Cond)(r.P)
	n := int64(0)
	if r.I0 == 0 { // signal
		if len(c.queue) > 0 {
			c.queue[0].signalled = true
			c.queue = c.queue[1:]
			n = 1
		}
	} else {
		for _, w := range c.queue {
			w.signalled = true
			n++
		}
		c.queue = nil
	}
	s.Ev(t, "cond-signal", ord(s, r.P), r.I0<<32|n)
	return simrt.Done
}

//go:norace
func (c *Cond) Wait() {
	if simrt.Active() == nil {
		panic("simsync.Cond used outside a simulation")
	}
	if simrt.Unwinding() {
		return
	}
	w := &waiter{}
	var r simrt.Req
	r.P = unsafe.Pointer(c)
	r.X = w
	simrt.Call(condEnqH, &r)
	c.L.Unlock()
	var r2 simrt.Req
	r2.P = unsafe.Pointer(c)
	r2.X = w
	simrt.Call(condWaitH, &r2)
	c.L.Lock()
}

// WaitTimeout is Wait with a simulated-time bound (ns); used by simmachine for
// translated programs. It reports whether the wait timed out.
//
//go:norace
func (c *Cond) WaitTimeout(ns int64) bool {
	if simrt.Unwinding() {
		return false
	}
	if ns <= 0 {
		ns = 1
	}
	w := &waiter{}
	var r simrt.Req
	r.P = unsafe.Pointer(c)
	r.X = w
	simrt.Call(condEnqH, &r)
	c.L.Unlock()
	var r2 simrt.Req
	r2.P = unsafe.Pointer(c)
	r2.X = w
	r2.I0 = ns
	simrt.Call(condWaitH, &r2)
	c.L.Lock()
	return r2.R0 == 1
}

//go:norace
func (c *Cond) Signal() {
	if simrt.Unwinding() {
		return
	}
	var r simrt.Req
	r.P = unsafe.Pointer(c)
	simrt.Call(condSignalH, &r)
}

//go:norace
func (c *Cond) Broadcast() {
	if simrt.Unwinding() {
		return
	}
	var r simrt.Req
	r.P = unsafe.Pointer(c)
	r.I0 = 1
	simrt.Call(condSignalH, &r)
}

// ---- WaitGroup -----------------------------------------------------------------

type WaitGroup struct {
	real sync.WaitGroup
	n    int64
}

//go:norace
func wgAddH(s *simrt.Sim, t *simrt.Task, r *simrt.Req) simrt.Status {
	s.Sync(t, "wg-add", r.P, r.I0)
	s.Ev(t, "wg-add", ord(s, r.P), r.I0)
	return simrt.Done
}

//go:norace
func wgWaitH(s *simrt.Sim, t *simrt.Task, r *simrt.Req) simrt.Status {
	wg := (*WaitGroup)(r.P)
	if wg.n != 0 {
		if r.I1 == 0 {
			r.I1 = 1
			s.Ev(t, "wg-wait", ord(s, r.P), wg.n)
		}
		t.Ready = wgReady
		t.BlockedOn = "waitgroup"
		return simrt.Block
	}
	s.Sync(t, "wg-wait", r.P, 0)
	s.Ev(t, "wg-waited", ord(s, r.P), 0)
	return simrt.Done
}

//go:norace
func wgReady(s *simrt.Sim, t *simrt.Task) bool { return (*WaitGroup)(t.ReqP()).n == 0 }

//go:norace
func (wg *WaitGroup) Add(delta int) {
	if simrt.Active() == nil {
		wg.real.Add(delta)
		return
	}
	if simrt.Unwinding() {
		return
	}
	if wg.n+int64(delta) < 0 {
		panic("sync: negative WaitGroup counter")
	}
	wg.n += int64(delta)
	wg.real.Add(delta)
	var r simrt.Req
	r.P = unsafe.Pointer(wg)
	r.I0 = int64(delta)
	simrt.Call(wgAddH, &r)
}

func (wg *WaitGroup) Done() { wg.Add(-1) }

//go:norace
func (wg *WaitGroup) Wait() {
	if simrt.Active() == nil {
		wg.real.Wait()
		return
	}
	if simrt.Unwinding() {
		return
	}
	var r simrt.Req
	r.P = unsafe.Pointer(wg)
	simrt.Call(wgWaitH, &r)
	wg.real.Wait()
}

// ---- Once ------------------------------------------------------------------------

type Once struct {
	m    Mutex
	done bool
}

//go:norace
func (o *Once) Do(f func()) {
	o.m.Lock()
	defer o.m.Unlock()
	if !o.done {
		defer func() { o.done = true }()
		f()
	}
}

func OnceFunc(f func()) func() {
	var o Once
	return func() { o.Do(f) }
}
