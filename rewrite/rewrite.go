// Package rewrite derives instrumented copies of /repo's source files at check
// time. Every rewrite is a *textual splice at AST-determined offsets*: the
// original bytes, comments and line structure are untouched (inserted text
// never contains a newline), so line numbers in panics, race reports and
// goose's own runtime.Caller-based messages still refer to /repo's lines.
package rewrite

import (
	"fmt"
	"go/ast"
	"go/token"
	"go/types"
	"os"
	"path/filepath"
	"sort"
	"strings"

	"golang.org/x/tools/go/packages"
)

// Options selects the rewrites (DESIGN.md section 2, R1-R8).
type Options struct {
	// Imports maps an import path to its replacement (R1, R2, R3, R8).
	Imports map[string]string
	// Yields inserts simrt.Yield before every statement of every statement
	// list (R5). FuncEntryOnly restricts it to the first statement of each
	// function body.
	Yields        bool
	FuncEntryOnly bool
	// GoStmt turns go statements into simrt.Go (R4).
	GoStmt bool
	// Copy turns the builtin copy into simrt.Copy (R6).
	Copy bool
	// MapRange routes range-over-map through simrt.MapKeys (R7).
	MapRange bool
	// Channels routes channel types and operations through verif/simchan:
	// `chan T` -> *simchan.Chan[T], make/send/receive/close/len/cap/range and
	// select statements -> calls.
	Channels bool
	// YieldCall / YieldImport override the yield call (default simrt.Yield from
	// verif/simrt), e.g. "synyield.Point" from "verif/synyield".
	YieldCall   string
	YieldImport string
	// WrapMain renames func main to verifRealMain and adds a main that runs it
	// under simrt.Main (whole-binary simulation); os.Exit becomes simrt.Exit so
	// that the run's tape is saved before the process ends.
	WrapMain bool
	// Forbid lists import paths that must not appear (they would bypass a seam).
	Forbid []string
	// SiteBase is added to yield site numbers (file index << 20).
	SiteBase int
}

// Stats says what was done, for evidence.
type Stats struct {
	Files          int
	Yields         int
	GoStmts        int
	Copies         int
	MapRanges      int
	MapRangesLeft  int // map ranges left native (unsupported shape)
	ChanOps        int
	ImportsSwapped int
}

type edit struct {
	pos, end int // byte offsets; pos==end is an insertion
	text     string
	prio     int // among insertions at the same offset: lower first
}

// Package rewrites the given files (absolute paths) of the package in dir.
// It returns the new contents keyed by absolute path.
func Package(dir string, files []string, opt Options, env []string) (map[string][]byte, Stats, error) {
	return PackagePattern(dir, ".", files, opt, env)
}

// PackagePattern is Package for a package named by an import path (e.g. a
// dependency in the module cache), loaded from dir's module. files may then be
// base names.
func PackagePattern(dir, pattern string, files []string, opt Options, env []string) (map[string][]byte, Stats, error) {
	var st Stats
	cfg := &packages.Config{
		Dir:  dir,
		Mode: packages.NeedName | packages.NeedFiles | packages.NeedCompiledGoFiles | packages.NeedSyntax | packages.NeedTypes | packages.NeedTypesInfo | packages.NeedImports,
		Env:  env,
		Fset: token.NewFileSet(),
	}
	pkgs, err := packages.Load(cfg, pattern)
	if err != nil {
		return nil, st, fmt.Errorf("load %s: %w", dir, err)
	}
	if len(pkgs) != 1 {
		return nil, st, fmt.Errorf("load %s: %d packages", dir, len(pkgs))
	}
	pkg := pkgs[0]
	if len(pkg.Errors) > 0 {
		return nil, st, fmt.Errorf("load %s: %v", dir, pkg.Errors[0])
	}
	want := map[string]bool{}
	for _, f := range files {
		if !filepath.IsAbs(f) {
			for _, cf := range pkg.CompiledGoFiles {
				if filepath.Base(cf) == f {
					f = cf
				}
			}
		}
		want[filepath.Clean(f)] = true
	}
	out := map[string][]byte{}
	fileIdx := 0
	for i, af := range pkg.Syntax {
		name := filepath.Clean(pkg.CompiledGoFiles[i])
		if len(files) > 0 && !want[name] {
			continue
		}
		src, err := os.ReadFile(name)
		if err != nil {
			return nil, st, err
		}
		r := &rewriter{fset: pkg.Fset, info: pkg.TypesInfo, file: af, src: src, opt: opt, st: &st,
			tf: pkg.Fset.File(af.Pos()), siteBase: opt.SiteBase + fileIdx<<20}
		fileIdx++
		if err := r.run(); err != nil {
			return nil, st, fmt.Errorf("%s: %w", name, err)
		}
		out[name] = r.apply()
		st.Files++
		delete(want, name)
	}
	for f := range want {
		return nil, st, fmt.Errorf("file %s is not part of package %s", f, dir)
	}
	return out, st, nil
}

type rewriter struct {
	fset     *token.FileSet
	tf       *token.File
	info     *types.Info
	file     *ast.File
	src      []byte
	opt      Options
	st       *Stats
	edits    []edit
	siteBase int
	needRT   bool
	needYI   bool
	needCh   bool
	skip     map[ast.Node]bool
	tmp      int
}

func (r *rewriter) off(p token.Pos) int { return r.tf.Offset(p) }

func (r *rewriter) insert(p token.Pos, text string, prio int) {
	o := r.off(p)
	r.edits = append(r.edits, edit{o, o, text, prio})
}

func (r *rewriter) replace(p, e token.Pos, text string) {
	r.edits = append(r.edits, edit{r.off(p), r.off(e), text, 0})
}

func (r *rewriter) text(p, e token.Pos) string { return string(r.src[r.off(p):r.off(e)]) }

func (r *rewriter) run() error {
	// imports
	for _, im := range r.file.Imports {
		path := strings.Trim(im.Path.Value, "\"`")
		for _, f := range r.opt.Forbid {
			if path == f {
				return fmt.Errorf("import %q would bypass a simulation seam", path)
			}
		}
		if to, ok := r.opt.Imports[path]; ok {
			if im.Name != nil {
				r.replace(im.Path.Pos(), im.Path.End(), fmt.Sprintf("%q", to))
			} else {
				base := path[strings.LastIndex(path, "/")+1:]
				r.replace(im.Path.Pos(), im.Path.End(), fmt.Sprintf("%s %q", base, to))
			}
			r.st.ImportsSwapped++
		}
	}
	var err error
	caseBodies := map[*ast.BlockStmt]bool{}
	ast.Inspect(r.file, func(n ast.Node) bool {
		switch n := n.(type) {
		case *ast.SwitchStmt:
			caseBodies[n.Body] = true
		case *ast.TypeSwitchStmt:
			caseBodies[n.Body] = true
		case *ast.SelectStmt:
			caseBodies[n.Body] = true
		}
		return true
	})
	if r.opt.Channels {
		r.skip = map[ast.Node]bool{}
		if e := r.channels(); e != nil {
			return e
		}
	}
	ast.Inspect(r.file, func(n ast.Node) bool {
		if err != nil {
			return false
		}
		switch n := n.(type) {
		case *ast.FuncDecl:
			if n.Body != nil && n.Name.Name == "init" && n.Recv == nil {
				return false
			}
			if r.opt.WrapMain && n.Recv == nil && n.Name.Name == "main" && r.file.Name.Name == "main" {
				r.replace(n.Name.Pos(), n.Name.End(), "verifRealMain")
				r.insert(r.file.End(), "\nfunc main() { simrt.Main(verifRealMain) }\n", 0)
				r.needRT = true
			}
			if n.Body != nil && r.opt.Yields && r.opt.FuncEntryOnly && len(n.Body.List) > 0 {
				r.yieldBefore(n.Body.List[0])
			}
		case *ast.FuncLit:
			if r.opt.Yields && r.opt.FuncEntryOnly && len(n.Body.List) > 0 {
				r.yieldBefore(n.Body.List[0])
			}
		case *ast.BlockStmt:
			if r.opt.Yields && !r.opt.FuncEntryOnly && !caseBodies[n] {
				r.yieldList(n.List)
			}
		case *ast.CaseClause:
			if r.opt.Yields && !r.opt.FuncEntryOnly {
				r.yieldList(n.Body)
			}
		case *ast.CommClause:
			if r.opt.Yields && !r.opt.FuncEntryOnly {
				r.yieldList(n.Body)
			}
		case *ast.GoStmt:
			if r.opt.GoStmt {
				err = r.goStmt(n)
			}
		case *ast.CallExpr:
			if r.opt.WrapMain {
				if sel, ok := n.Fun.(*ast.SelectorExpr); ok && sel.Sel.Name == "Exit" {
					if id, ok := sel.X.(*ast.Ident); ok && id.Name == "os" {
						if pn, ok := r.info.Uses[id].(*types.PkgName); ok && pn.Imported().Path() == "os" {
							r.replace(sel.Pos(), sel.End(), "simrt.Exit")
							r.needRT = true
						}
					}
				}
			}
			if r.opt.Copy {
				if id, ok := n.Fun.(*ast.Ident); ok && id.Name == "copy" && len(n.Args) == 2 {
					if _, isB := r.info.Uses[id].(*types.Builtin); isB {
						// only slice sources (copy from a string stays native)
						if t := r.info.TypeOf(n.Args[1]); t != nil {
							if _, isSlice := t.Underlying().(*types.Slice); isSlice {
								r.replace(id.Pos(), id.End(), "simrt.Copy")
								r.needRT = true
								r.st.Copies++
							}
						}
					}
				}
			}
		case *ast.RangeStmt:
			if r.opt.MapRange {
				r.rangeStmt(n)
			}
		}
		return true
	})
	if err != nil {
		return err
	}
	if r.needRT {
		// add the simrt import right after the package clause, on the same line
		r.insert(r.file.Name.End(), `; import simrt "verif/simrt"`, 0)
	}
	if r.needCh {
		r.insert(r.file.Name.End(), `; import simchan "verif/simchan"`, 2)
	}
	if r.needYI {
		name := r.opt.YieldCall[:strings.Index(r.opt.YieldCall, ".")]
		r.insert(r.file.Name.End(), fmt.Sprintf("; import %s %q", name, r.opt.YieldImport), 1)
	}
	return nil
}

func (r *rewriter) site(p token.Pos) int {
	return r.siteBase + r.fset.Position(p).Line
}

func (r *rewriter) yieldBefore(s ast.Stmt) {
	call := "simrt.Yield"
	if r.opt.YieldCall != "" {
		call = r.opt.YieldCall
		r.needYI = true
	} else {
		r.needRT = true
	}
	r.insert(s.Pos(), fmt.Sprintf("%s(%d); ", call, r.site(s.Pos())), 0)
	r.st.Yields++
}

func (r *rewriter) yieldList(list []ast.Stmt) {
	for _, s := range list {
		if _, ok := s.(*ast.EmptyStmt); ok {
			continue
		}
		r.yieldBefore(s)
	}
}

// goStmt rewrites `go F(a, b)` to
// `{ _vf1 := F; _va2 := a; _va3 := b; simrt.Go(func() { _vf1(_va2, _va3) }) }`
// by replacing only the text *between* the sub-expressions, so nested edits
// inside F (a function literal) and the arguments stay valid.
func (r *rewriter) goStmt(g *ast.GoStmt) error {
	call := g.Call
	if call.Ellipsis.IsValid() {
		return fmt.Errorf("go statement with variadic spread at %v is not supported by the rewriter", r.fset.Position(g.Pos()))
	}
	r.needRT = true
	r.st.GoStmts++
	r.tmp++
	fn := fmt.Sprintf("_vf%d", r.tmp)
	r.replace(g.Go, call.Fun.Pos(), "{ "+fn+" := ")
	var names []string
	prevEnd := call.Fun.End()
	for _, a := range call.Args {
		r.tmp++
		an := fmt.Sprintf("_va%d", r.tmp)
		names = append(names, an)
		r.replace(prevEnd, a.Pos(), "; "+an+" := ")
		prevEnd = a.End()
	}
	r.replace(prevEnd, call.Rparen+1, fmt.Sprintf("; simrt.Go(func() { %s(%s) }) }", fn, strings.Join(names, ", ")))
	return nil
}

func simpleExpr(e ast.Expr) bool {
	switch e := e.(type) {
	case *ast.Ident:
		return true
	case *ast.SelectorExpr:
		return simpleExpr(e.X)
	case *ast.ParenExpr:
		return simpleExpr(e.X)
	case *ast.StarExpr:
		return simpleExpr(e.X)
	}
	return false
}

func orderableKey(t types.Type) bool {
	switch u := t.Underlying().(type) {
	case *types.Basic:
		return u.Info()&(types.IsInteger|types.IsString|types.IsBoolean) != 0
	case *types.Struct:
		for i := 0; i < u.NumFields(); i++ {
			if !orderableKey(u.Field(i).Type()) {
				return false
			}
		}
		return true
	case *types.Array:
		return orderableKey(u.Elem())
	}
	return false
}

func (r *rewriter) rangeStmt(rs *ast.RangeStmt) {
	t := r.info.TypeOf(rs.X)
	if t == nil {
		return
	}
	mt, ok := t.Underlying().(*types.Map)
	if !ok {
		return
	}
	keyName, valName := "_", "_"
	if rs.Key != nil {
		id, ok := rs.Key.(*ast.Ident)
		if !ok {
			r.st.MapRangesLeft++
			return
		}
		keyName = id.Name
	}
	if rs.Value != nil {
		id, ok := rs.Value.(*ast.Ident)
		if !ok {
			r.st.MapRangesLeft++
			return
		}
		valName = id.Name
	}
	if (rs.Key != nil && rs.Tok != token.DEFINE) || !simpleExpr(rs.X) || !orderableKey(mt.Key()) {
		r.st.MapRangesLeft++
		return
	}
	r.needRT = true
	r.st.MapRanges++
	r.tmp++
	k := keyName
	if k == "_" {
		k = fmt.Sprintf("_vk%d", r.tmp)
	}
	x := r.text(rs.X.Pos(), rs.X.End())
	hdr := fmt.Sprintf("for _, %s := range simrt.MapKeys(%s) {", k, x)
	var pre string
	if valName != "_" {
		pre = fmt.Sprintf(" %s, _vok%d := %s[%s]; if !_vok%d { continue };", valName, r.tmp, x, k, r.tmp)
	} else {
		pre = fmt.Sprintf(" if _, _vok%d := %s[%s]; !_vok%d { continue };", r.tmp, x, k, r.tmp)
	}
	if rs.Key == nil {
		// `for range m`: keep the count only
		pre = ""
	}
	r.replace(rs.For, rs.Body.Lbrace+1, hdr+pre)
}

func (r *rewriter) apply() []byte {
	sort.SliceStable(r.edits, func(i, j int) bool {
		a, b := r.edits[i], r.edits[j]
		if a.pos != b.pos {
			return a.pos < b.pos
		}
		// insertions before replacements starting at the same offset
		ai, bi := a.pos == a.end, b.pos == b.end
		if ai != bi {
			return ai
		}
		return a.prio < b.prio
	})
	var out []byte
	at := 0
	for _, e := range r.edits {
		if e.pos < at {
			panic(fmt.Sprintf("rewrite: overlapping edits at offset %d (%q)", e.pos, e.text))
		}
		out = append(out, r.src[at:e.pos]...)
		out = append(out, e.text...)
		at = e.end
	}
	out = append(out, r.src[at:]...)
	return out
}

// ---- channels -------------------------------------------------------------------------

func (r *rewriter) isChan(e ast.Expr) bool {
	t := r.info.TypeOf(e)
	if t == nil {
		return false
	}
	_, ok := t.Underlying().(*types.Chan)
	return ok
}

func (r *rewriter) chanErr(n ast.Node, what string) error {
	return fmt.Errorf("channel construct not supported by the rewriter at %v: %s", r.fset.Position(n.Pos()), what)
}

// channels emits the edits for every channel construct of the file.
func (r *rewriter) channels() error {
	var err error
	// parents, for the two-value receive
	recv2 := map[*ast.UnaryExpr]bool{}
	ast.Inspect(r.file, func(n ast.Node) bool {
		switch n := n.(type) {
		case *ast.AssignStmt:
			if len(n.Lhs) == 2 && len(n.Rhs) == 1 {
				if u, ok := n.Rhs[0].(*ast.UnaryExpr); ok && u.Op == token.ARROW {
					recv2[u] = true
				}
			}
		case *ast.ValueSpec:
			if len(n.Names) == 2 && len(n.Values) == 1 {
				if u, ok := n.Values[0].(*ast.UnaryExpr); ok && u.Op == token.ARROW {
					recv2[u] = true
				}
			}
		}
		return true
	})
	selN := 0
	ast.Inspect(r.file, func(n ast.Node) bool {
		if err != nil || n == nil {
			return false
		}
		if r.skip[n] {
			return false
		}
		switch n := n.(type) {
		case *ast.SelectStmt:
			selN++
			err = r.selectStmt(n, selN)
			// bodies are still visited; the comm statements were marked skip
		case *ast.CallExpr:
			if id, ok := n.Fun.(*ast.Ident); ok {
				if _, isB := r.info.Uses[id].(*types.Builtin); isB {
					switch {
					case id.Name == "make" && len(n.Args) >= 1:
						if ct, ok := n.Args[0].(*ast.ChanType); ok {
							r.needCh = true
							r.st.ChanOps++
							r.skip[ct] = true
							r.replace(n.Fun.Pos(), ct.Value.Pos(), "simchan.Make[")
							if len(n.Args) >= 2 {
								r.replace(ct.Value.End(), n.Args[1].Pos(), "](")
							} else {
								r.replace(ct.Value.End(), n.Rparen, "](0")
							}
							// still visit the element type (nested chan types) and the size
							ast.Inspect(ct.Value, func(m ast.Node) bool { return r.chanTypeVisit(m) })
						}
					case (id.Name == "close" || id.Name == "len" || id.Name == "cap") && len(n.Args) == 1 && r.isChan(n.Args[0]):
						r.needCh = true
						r.st.ChanOps++
						m := map[string]string{"close": ".Close()", "len": ".Len()", "cap": ".Cap()"}[id.Name]
						r.replace(n.Fun.Pos(), n.Args[0].Pos(), "(")
						r.replace(n.Args[0].End(), n.Rparen+1, ")"+m)
					}
				}
			}
		case *ast.ChanType:
			r.chanTypeVisit(n)
		case *ast.SendStmt:
			r.needCh = true
			r.st.ChanOps++
			r.replace(n.Chan.End(), n.Value.Pos(), ".Send(")
			r.insert(n.Value.End(), ")", 1000000-int(n.Pos()))
		case *ast.UnaryExpr:
			if n.Op == token.ARROW {
				r.needCh = true
				r.st.ChanOps++
				r.replace(n.OpPos, n.X.Pos(), "(")
				// closers of inner nodes (larger start position) must come first
				if recv2[n] {
					r.insert(n.X.End(), ").Recv2()", 1000000-int(n.Pos()))
				} else {
					r.insert(n.X.End(), ").Recv()", 1000000-int(n.Pos()))
				}
			}
		case *ast.RangeStmt:
			if r.isChan(n.X) {
				r.needCh = true
				r.st.ChanOps++
				r.tmp++
				k := "_"
				if n.Key != nil {
					id, ok := n.Key.(*ast.Ident)
					if !ok || n.Tok != token.DEFINE {
						err = r.chanErr(n, "range over a channel with a non-identifier or assigned variable")
						return false
					}
					k = id.Name
				}
				if n.Value != nil {
					err = r.chanErr(n, "range over a channel with two variables")
					return false
				}
				x := r.text(n.X.Pos(), n.X.End())
				r.replace(n.For, n.Body.Lbrace+1, fmt.Sprintf("for { %s, _vok%d := (%s).Recv2(); if !_vok%d { break }; _ = %s;", k, r.tmp, x, r.tmp, map[bool]string{true: "0", false: k}[k == "_"]))
				r.skip[n.X] = true
			}
		}
		return true
	})
	return err
}

func (r *rewriter) chanTypeVisit(n ast.Node) bool {
	ct, ok := n.(*ast.ChanType)
	if !ok || r.skip[ct] {
		return true
	}
	r.needCh = true
	r.skip[ct] = true
	r.replace(ct.Begin, ct.Value.Pos(), "*simchan.Chan[")
	r.insert(ct.Value.End(), "]", 1)
	ast.Inspect(ct.Value, func(m ast.Node) bool { return r.chanTypeVisit(m) })
	return false
}

// selectStmt rewrites one select statement into a simchan.Select + switch.
func (r *rewriter) selectStmt(s *ast.SelectStmt, n int) error {
	r.needCh = true
	r.st.ChanOps++
	sel := fmt.Sprintf("_vsel%d", n)
	var pre strings.Builder
	fmt.Fprintf(&pre, "{ %s := simchan.NewSelect(); ", sel)
	hasDefault := false
	idx := 0
	nested := func(e ast.Expr) bool {
		bad := false
		ast.Inspect(e, func(m ast.Node) bool {
			switch m := m.(type) {
			case *ast.UnaryExpr:
				if m.Op == token.ARROW {
					bad = true
				}
			case *ast.FuncLit:
				bad = true
			}
			return !bad
		})
		return bad
	}
	for _, cl := range s.Body.List {
		cc := cl.(*ast.CommClause)
		if cc.Comm == nil {
			hasDefault = true
			r.replace(cc.Case, cc.Colon+1, "default:")
			continue
		}
		r.skip[cc.Comm] = true
		var bind string
		switch c := cc.Comm.(type) {
		case *ast.SendStmt:
			if nested(c.Chan) || nested(c.Value) {
				return r.chanErr(c, "nested channel operation inside a select case")
			}
			fmt.Fprintf(&pre, "simchan.OnSend(%s, %s, %s); ", sel, r.text(c.Chan.Pos(), c.Chan.End()), r.text(c.Value.Pos(), c.Value.End()))
		case *ast.ExprStmt:
			u, ok := c.X.(*ast.UnaryExpr)
			if !ok || u.Op != token.ARROW || nested(u.X) {
				return r.chanErr(c, "unexpected select case")
			}
			fmt.Fprintf(&pre, "simchan.OnRecv(%s, %s); ", sel, r.text(u.X.Pos(), u.X.End()))
		case *ast.AssignStmt:
			if len(c.Rhs) != 1 {
				return r.chanErr(c, "unexpected select case")
			}
			u, ok := c.Rhs[0].(*ast.UnaryExpr)
			if !ok || u.Op != token.ARROW || nested(u.X) {
				return r.chanErr(c, "unexpected select case")
			}
			cv := fmt.Sprintf("%sc%d", sel, idx)
			fmt.Fprintf(&pre, "%s := simchan.OnRecv(%s, %s); ", cv, sel, r.text(u.X.Pos(), u.X.End()))
			op := c.Tok.String()
			lhs0 := r.text(c.Lhs[0].Pos(), c.Lhs[0].End())
			if len(c.Lhs) == 2 {
				lhs1 := r.text(c.Lhs[1].Pos(), c.Lhs[1].End())
				bind = fmt.Sprintf(" %s, %s %s %s.Val(), %s.Ok();", lhs0, lhs1, op, cv, cv)
				if c.Tok == token.DEFINE {
					bind += fmt.Sprintf(" _, _ = %s, %s;", blankIfUnderscore(lhs0), blankIfUnderscore(lhs1))
				}
			} else {
				bind = fmt.Sprintf(" %s %s %s.Val();", lhs0, op, cv)
				if c.Tok == token.DEFINE {
					bind += fmt.Sprintf(" _ = %s;", blankIfUnderscore(lhs0))
				}
			}
		default:
			return r.chanErr(c, "unexpected select case")
		}
		r.replace(cc.Case, cc.Colon+1, fmt.Sprintf("case %d:%s", idx, bind))
		idx++
	}
	fmt.Fprintf(&pre, "switch %s.Wait(%v) {", sel, hasDefault)
	r.replace(s.Select, s.Body.Lbrace+1, pre.String())
	if !hasDefault {
		// keeps the statement "terminating" in Go's sense when every case returns
		r.insert(s.Body.Rbrace, "default: panic(\"simchan: impossible select index\"); ", 8)
	}
	r.insert(s.Body.Rbrace+1, " }", 9)
	return nil
}

func blankIfUnderscore(s string) string {
	if s == "_" {
		return "0"
	}
	return s
}
