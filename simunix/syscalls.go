package simunix

import (
	"fmt"
	"syscall"
	"unsafe"

	"golang.org/x/sys/unix"

	"verif/simrt"
)

// op codes
const (
	opOpenat = iota + 1
	opClose
	opRead
	opWrite
	opPread
	opPwrite
	opSeek
	opFsync
	opFdatasync
	opSync
	opFtruncate
	opFstat
	opStat
	opMkdirat
	opUnlinkat
	opRenameat
	opLinkat
	opReadDirent
	opDup
	opFallocate
)

var opNames = map[int]string{
	opOpenat: "openat", opClose: "close", opRead: "read", opWrite: "write", opPread: "pread",
	opPwrite: "pwrite", opSeek: "seek", opFsync: "fsync", opFdatasync: "fdatasync", opSync: "sync",
	opFtruncate: "ftruncate", opFstat: "fstat", opStat: "stat", opMkdirat: "mkdirat",
	opUnlinkat: "unlinkat", opRenameat: "renameat", opLinkat: "linkat", opReadDirent: "getdents64", opDup: "dup", opFallocate: "fallocate",
}

// OpName returns the system call name of a SysRec/trace op code.
func OpName(op int) string { return opNames[op] }

// statOut is what fstat/stat report; copied into the caller's Stat_t on the
// task side.
type statOut struct {
	mode  uint32
	size  int64
	ino   uint64
	nlink uint64
	mtime int64
}

// sysH executes one system call on the scheduler goroutine.
//
//go:norace
func sysH(s *simrt.Sim, t *simrt.Task, r *simrt.Req) simrt.Status {
	k := kernelOf(s)
	op := int(r.I3)
	if k.Quiet {
		fq := ""
		ret, errno, _ := k.exec(op, r, -1, &fq)
		r.R0, r.E = ret, int64(errno)
		s.Ev(t, "quiet-"+opNames[op], ret, int64(errno))
		return simrt.Done
	}
	n := k.nsys
	k.nsys++
	var ret int64
	var errno syscall.Errno
	fault := ""
	short := -1
	if k.opCount == nil {
		k.opCount = map[string]int{}
	}
	nth := k.opCount[opNames[op]]
	k.opCount[opNames[op]]++
	var applied *Fault
	for fi := range k.cfg.Faults {
		f := k.cfg.Faults[fi]
		if f.Op != "" {
			if f.Op != opNames[op] || nth < f.At || (nth > f.At && !f.Sticky) {
				continue
			}
		} else if f.At != n {
			continue
		}
		applied = &k.cfg.Faults[fi]
		switch f.Kind {
		case "crash":
			s.Faults["crash"]++
			s.TriggerCrash()
			s.EvS(t, "sys-crash", opNames[op])
			// the call does not execute; the task is torn down by the crash
			r.E = int64(syscall.EINTR)
			r.R0 = -1
			return simrt.Done
		case "errno":
			errno = syscall.Errno(f.Errno)
			fault = "errno"
		case "short":
			// only transfers can be short; on any other call the fault does not apply
			if op == opRead || op == opPread || op == opWrite || op == opPwrite {
				short = f.Short
				fault = "short"
			}
		}
	}
	args := ""
	if errno == 0 {
		ret, errno, args = k.exec(op, r, short, &fault)
	} else {
		ret = -1
		args = "(faulted)"
		if (op == opFsync || op == opFdatasync) && errno == syscall.EIO {
			k.failSync(int(r.I0))
		}
	}
	if fault != "" {
		s.Faults[fault+":"+opNames[op]]++
		if applied != nil {
			k.Fired = append(k.Fired, FiredFault{N: n, F: *applied})
		}
	}
	r.R0 = ret
	r.E = int64(errno)
	s.Ev(t, opNames[op], ret, int64(errno))
	if k.cfg.Trace || s.KeepLog() {
		rec := SysRec{N: n, Task: t.ID, Op: opNames[op], Args: args, Ret: ret, Errno: int(errno), Fault: fault}
		if k.cfg.Trace {
			k.Trace = append(k.Trace, rec)
		}
		if s.KeepLog() {
			s.EvS(t, "sys", fmt.Sprintf("#%d %s(%s) = %d errno=%d %s", n, rec.Op, args, ret, int(errno), fault))
		}
	}
	if k.AfterSyscall != nil && !k.Quiet {
		k.AfterSyscall(n, opNames[op])
	}
	return simrt.Done
}

//go:norace
func (k *Kernel) exec(op int, r *simrt.Req, short int, fault *string) (ret int64, errno syscall.Errno, args string) {
	switch op {
	case opOpenat:
		p := cloneStr(r.S0)
		fd, e := k.openat(int(r.I0), p, int(r.I1))
		return int64(fd), e, fmt.Sprintf("%d,%q,%#x", r.I0, p, r.I1)
	case opClose:
		return 0, k.closefd(int(r.I0)), fmt.Sprint(r.I0)
	case opDup:
		f := k.fds[int(r.I0)]
		if f == nil {
			return -1, syscall.EBADF, fmt.Sprint(r.I0)
		}
		fd := 3
		if k.cfg.HighFds {
			fd = 1000
		}
		for k.fds[fd] != nil {
			fd++
		}
		f.refs++
		k.fds[fd] = f
		return int64(fd), 0, fmt.Sprint(r.I0)
	case opRead, opPread:
		f := k.fds[int(r.I0)]
		args = fmt.Sprintf("%d,len=%d,off=%d", r.I0, len(r.B), r.I1)
		if f == nil {
			return -1, syscall.EBADF, args
		}
		if f.ino.isDir {
			return -1, syscall.EISDIR, args
		}
		if f.flags&oACCMODE == syscall.O_WRONLY {
			return -1, syscall.EBADF, args
		}
		off := r.I1
		if op == opRead {
			off = f.off
		}
		if off < 0 {
			return -1, syscall.EINVAL, args
		}
		n := 0
		if off < int64(len(f.ino.data)) {
			avail := f.ino.data[off:]
			want := len(r.B)
			if short >= 0 && short < want {
				want = short
			} else if short >= 0 {
				*fault = ""
			}
			if want > len(avail) {
				want = len(avail)
			}
			n = copyBytes(r.B[:want], avail)
		} else if short >= 0 {
			*fault = ""
		}
		if op == opRead {
			f.off += int64(n)
		}
		return int64(n), 0, args
	case opWrite, opPwrite:
		f := k.fds[int(r.I0)]
		args = fmt.Sprintf("%d,len=%d,off=%d", r.I0, len(r.B), r.I1)
		if f == nil {
			return -1, syscall.EBADF, args
		}
		if f.ino.isDir || f.flags&oACCMODE == syscall.O_RDONLY {
			return -1, syscall.EBADF, args
		}
		off := r.I1
		if op == opWrite {
			off = f.off
		}
		if f.flags&syscall.O_APPEND != 0 {
			// Linux appends on O_APPEND descriptors, for pwrite too
			off = int64(len(f.ino.data))
		}
		if off < 0 {
			return -1, syscall.EINVAL, args
		}
		want := len(r.B)
		if want == 0 {
			return 0, 0, args // a zero-length write has no effect, not even on the offset
		}
		if short >= 0 && short < want {
			want = short
		} else if short >= 0 {
			*fault = ""
		}
		if k.cfg.MaxWrite > 0 && want > k.cfg.MaxWrite {
			want = k.cfg.MaxWrite
		}
		if k.cfg.DiskBudget > 0 {
			grow := off + int64(want) - int64(len(f.ino.data))
			if grow > 0 && k.used+grow > k.cfg.DiskBudget {
				room := k.cfg.DiskBudget - k.used
				if room <= 0 && want > 0 {
					*fault = "enospc"
					return -1, syscall.ENOSPC, args
				}
				cut := int64(len(f.ino.data)) + room - off
				if cut < int64(want) {
					if cut <= 0 {
						*fault = "enospc"
						return -1, syscall.ENOSPC, args
					}
					want = int(cut)
					*fault = "enospc-short"
				}
			}
		}
		before := int64(len(f.ino.data))
		if want > 0 {
			k.writeAt(f.ino, r.B[:want], off)
		}
		if g := int64(len(f.ino.data)) - before; g > 0 {
			k.used += g
		}
		if op == opWrite {
			f.off = off + int64(want)
		}
		return int64(want), 0, args
	case opSeek:
		f := k.fds[int(r.I0)]
		args = fmt.Sprintf("%d,%d,%d", r.I0, r.I1, r.I2)
		if f == nil {
			return -1, syscall.EBADF, args
		}
		if f.ino.isDir {
			// only rewinding a directory stream is modelled
			if r.I1 == 0 && r.I2 == 0 {
				f.dirPos, f.dirCur = 0, ""
				return 0, 0, args
			}
			return -1, syscall.EINVAL, args
		}
		var base int64
		switch r.I2 {
		case 0:
		case 1:
			base = f.off
		case 2:
			base = int64(len(f.ino.data))
		default:
			return -1, syscall.EINVAL, args
		}
		if base+r.I1 < 0 {
			return -1, syscall.EINVAL, args
		}
		f.off = base + r.I1
		return f.off, 0, args
	case opFsync, opFdatasync:
		return 0, k.fsync(int(r.I0)), fmt.Sprint(r.I0)
	case opSync:
		k.syncAll()
		return 0, 0, ""
	case opFtruncate:
		f := k.fds[int(r.I0)]
		args = fmt.Sprintf("%d,%d", r.I0, r.I1)
		if f == nil {
			return -1, syscall.EBADF, args
		}
		if f.ino.isDir || f.flags&oACCMODE == syscall.O_RDONLY || r.I1 < 0 {
			return -1, syscall.EINVAL, args
		}
		if k.cfg.DiskBudget > 0 {
			grow := r.I1 - int64(len(f.ino.data))
			if grow > 0 && k.used+grow > k.cfg.DiskBudget {
				// sparse files: growing by truncate allocates nothing
				grow = 0
			}
		}
		k.truncate(f.ino, r.I1)
		if f.ino.osync {
			k.forceData(f.ino)
		}
		return 0, 0, args
	case opFallocate:
		// error precedence follows Linux vfs_fallocate
		f := k.fds[int(r.I0)]
		args = fmt.Sprintf("%d,mode=%#x,off=%d,len=%d", r.I0, r.I2, r.I1, r.R1)
		if f == nil {
			return -1, syscall.EBADF, args
		}
		off, ln, mode := r.I1, r.R1, r.I2
		const keepSize, punchHole, zeroRange = 0x1, 0x2, 0x10
		if off < 0 || ln <= 0 {
			return -1, syscall.EINVAL, args
		}
		if mode&^(keepSize|punchHole|zeroRange) != 0 {
			return -1, syscall.EOPNOTSUPP, args
		}
		if mode&punchHole != 0 && mode&zeroRange != 0 {
			return -1, syscall.EOPNOTSUPP, args
		}
		if mode&punchHole != 0 && mode&keepSize == 0 {
			return -1, syscall.EOPNOTSUPP, args
		}
		if f.flags&oACCMODE == syscall.O_RDONLY {
			return -1, syscall.EBADF, args
		}
		if f.ino.isDir {
			return -1, syscall.EISDIR, args
		}
		size := int64(len(f.ino.data))
		end := off + ln
		if mode&(punchHole|zeroRange) != 0 {
			zend := end
			if zend > size {
				zend = size
			}
			if zend > off {
				k.writeAt(f.ino, make([]byte, zend-off), off)
			}
		}
		if mode&keepSize == 0 && end > size {
			k.truncate(f.ino, end)
		}
		return 0, 0, args
	case opFstat, opStat:
		var in *inode
		if op == opFstat {
			args = fmt.Sprint(r.I0)
			f := k.fds[int(r.I0)]
			if f == nil {
				return -1, syscall.EBADF, args
			}
			in = f.ino
		} else {
			p := cloneStr(r.S0)
			args = fmt.Sprintf("%q", p)
			var e syscall.Errno
			in, e = k.lookup(int(r.I0), p)
			if e != 0 {
				return -1, e, args
			}
		}
		so := r.X.(*statOut)
		so.mode = syscall.S_IFREG | 0644
		if in.isDir {
			so.mode = syscall.S_IFDIR | 0755
		}
		so.size = int64(len(in.data))
		so.ino = uint64(in.ino)
		so.nlink = uint64(in.nlink)
		so.mtime = in.mtime
		return 0, 0, args
	case opMkdirat:
		p := cloneStr(r.S0)
		return 0, k.mkdirat(int(r.I0), p), fmt.Sprintf("%d,%q", r.I0, p)
	case opUnlinkat:
		p := cloneStr(r.S0)
		return 0, k.unlinkat(int(r.I0), p, int(r.I1)), fmt.Sprintf("%d,%q,%#x", r.I0, p, r.I1)
	case opRenameat:
		p, q := cloneStr(r.S0), cloneStr(r.S1)
		return 0, k.renameat(int(r.I0), p, int(r.I1), q), fmt.Sprintf("%d,%q,%d,%q", r.I0, p, r.I1, q)
	case opLinkat:
		p, q := cloneStr(r.S0), cloneStr(r.S1)
		return 0, k.linkat(int(r.I0), p, int(r.I1), q), fmt.Sprintf("%d,%q,%d,%q", r.I0, p, r.I1, q)
	case opReadDirent:
		f := k.fds[int(r.I0)]
		args = fmt.Sprintf("%d,len=%d", r.I0, len(r.B))
		if f == nil {
			return -1, syscall.EBADF, args
		}
		if !f.ino.isDir {
			return -1, syscall.ENOTDIR, args
		}
		tmp := make([]byte, len(r.B))
		n := k.readDirent(f, tmp)
		copyBytes(r.B[:n], tmp[:n])
		return int64(n), 0, args
	}
	panic(fmt.Sprintf("simunix: unknown op %d", op))
}

// ---- task side ---------------------------------------------------------------------

//go:norace
func realMode() bool {
	s := simrt.Active()
	if s == nil {
		return true
	}
	k, _ := s.Kern.(*Kernel)
	return k == nil || k.Real
}

//go:norace
func call(op int, r *simrt.Req) (int64, error) {
	r.I3 = int64(op)
	simrt.Call(sysH, r)
	if r.E != 0 {
		return r.R0, syscall.Errno(r.E)
	}
	return r.R0, nil
}

//go:norace
func Open(path string, mode int, perm uint32) (fd int, err error) {
	return Openat(AT_FDCWD, path, mode, perm)
}

//go:norace
func Openat(dirfd int, path string, flags int, mode uint32) (fd int, err error) {
	if realMode() {
		simrt.Yield(-10)
		return unix.Openat(dirfd, path, flags, mode)
	}
	var r simrt.Req
	r.I0, r.S0, r.I1 = int64(dirfd), path, int64(flags)
	n, err := call(opOpenat, &r)
	return int(n), err
}

//go:norace
func Close(fd int) error {
	if realMode() {
		simrt.Yield(-10)
		return unix.Close(fd)
	}
	var r simrt.Req
	r.I0 = int64(fd)
	_, err := call(opClose, &r)
	return err
}

//go:norace
func Dup(fd int) (int, error) {
	if realMode() {
		simrt.Yield(-10)
		return unix.Dup(fd)
	}
	var r simrt.Req
	r.I0 = int64(fd)
	n, err := call(opDup, &r)
	return int(n), err
}

//go:norace
func Read(fd int, p []byte) (n int, err error) {
	if realMode() {
		simrt.Yield(-10)
		return unix.Read(fd, p)
	}
	var r simrt.Req
	r.I0, r.B = int64(fd), p
	m, err := call(opRead, &r)
	return int(m), err
}

//go:norace
func Write(fd int, p []byte) (n int, err error) {
	if realMode() {
		simrt.Yield(-10)
		return unix.Write(fd, p)
	}
	var r simrt.Req
	r.I0, r.B = int64(fd), p
	m, err := call(opWrite, &r)
	return int(m), err
}

//go:norace
func Pread(fd int, p []byte, offset int64) (n int, err error) {
	if realMode() {
		simrt.Yield(-10)
		return unix.Pread(fd, p, offset)
	}
	var r simrt.Req
	r.I0, r.B, r.I1 = int64(fd), p, offset
	m, err := call(opPread, &r)
	return int(m), err
}

//go:norace
func slowFsync() int64 {
	s := simrt.Active()
	k, _ := s.Kern.(*Kernel)
	if k == nil {
		return 0
	}
	return k.cfg.SlowFsyncNs
}

//go:norace
func splitPwrite() bool {
	s := simrt.Active()
	k, _ := s.Kern.(*Kernel)
	return k != nil && k.cfg.SplitPwrite
}

//go:norace
func Pwrite(fd int, p []byte, offset int64) (n int, err error) {
	if realMode() {
		simrt.Yield(-10)
		return unix.Pwrite(fd, p, offset)
	}
	if len(p) >= 1024 && splitPwrite() && !simrt.Unwinding() {
		// a large pwrite is not atomic with respect to concurrent preads:
		// apply it in two halves with a scheduling point between
		h := len(p) / 2
		var r1 simrt.Req
		r1.I0, r1.B, r1.I1 = int64(fd), p[:h], offset
		m1, err := call(opPwrite, &r1)
		if err != nil || int(m1) < h {
			return int(m1), err
		}
		var r2 simrt.Req
		r2.I0, r2.B, r2.I1 = int64(fd), p[h:], offset+int64(h)
		m2, err := call(opPwrite, &r2)
		if err != nil {
			return h, nil
		}
		return h + int(m2), nil
	}
	var r simrt.Req
	r.I0, r.B, r.I1 = int64(fd), p, offset
	m, err := call(opPwrite, &r)
	return int(m), err
}

//go:norace
func Seek(fd int, offset int64, whence int) (off int64, err error) {
	if realMode() {
		simrt.Yield(-10)
		return unix.Seek(fd, offset, whence)
	}
	var r simrt.Req
	r.I0, r.I1, r.I2 = int64(fd), offset, int64(whence)
	return call(opSeek, &r)
}

//go:norace
func Fsync(fd int) error {
	if realMode() {
		simrt.Yield(-10)
		return unix.Fsync(fd)
	}
	if d := slowFsync(); d > 0 && !simrt.Unwinding() {
		simrt.Sleep(d) // a flush is slow: whoever is runnable gets to run first
	}
	var r simrt.Req
	r.I0 = int64(fd)
	_, err := call(opFsync, &r)
	return err
}

//go:norace
func Fdatasync(fd int) error {
	if realMode() {
		simrt.Yield(-10)
		return unix.Fdatasync(fd)
	}
	var r simrt.Req
	r.I0 = int64(fd)
	_, err := call(opFdatasync, &r)
	return err
}

//go:norace
func Sync() {
	if realMode() {
		simrt.Yield(-10)
		return
	}
	var r simrt.Req
	call(opSync, &r)
}

//go:norace
func Fallocate(fd int, mode uint32, off int64, len int64) error {
	if realMode() {
		simrt.Yield(-10)
		return unix.Fallocate(fd, mode, off, len)
	}
	var r simrt.Req
	r.I0, r.I1, r.I2, r.R1 = int64(fd), off, int64(mode), len
	_, err := call(opFallocate, &r)
	return err
}

//go:norace
func Ftruncate(fd int, length int64) error {
	if realMode() {
		simrt.Yield(-10)
		return unix.Ftruncate(fd, length)
	}
	var r simrt.Req
	r.I0, r.I1 = int64(fd), length
	_, err := call(opFtruncate, &r)
	return err
}

//go:norace
func fillStat(st *Stat_t, so *statOut) {
	*st = Stat_t{}
	st.Mode = so.mode
	st.Size = so.size
	st.Ino = so.ino
	st.Nlink = so.nlink
	st.Blksize = 4096
	st.Blocks = (so.size + 511) / 512
	// the epoch of the simulated clock is 2001-09-09T01:46:40Z, as in simtime
	ts := Timespec{Sec: 1_000_000_000 + so.mtime/1e9, Nsec: so.mtime % 1e9}
	st.Mtim, st.Ctim, st.Atim = ts, ts, ts
}

//go:norace
func Fstat(fd int, stat *Stat_t) error {
	if realMode() {
		simrt.Yield(-10)
		return unix.Fstat(fd, stat)
	}
	var r simrt.Req
	so := &statOut{}
	r.I0, r.X = int64(fd), so
	_, err := call(opFstat, &r)
	if err == nil {
		fillStat(stat, so)
	}
	return err
}

//go:norace
func Stat(path string, stat *Stat_t) error {
	return Fstatat(AT_FDCWD, path, stat, 0)
}

//go:norace
func Lstat(path string, stat *Stat_t) error { return Stat(path, stat) }

//go:norace
func Fstatat(dirfd int, path string, stat *Stat_t, flags int) error {
	if realMode() {
		simrt.Yield(-10)
		return unix.Fstatat(dirfd, path, stat, flags)
	}
	var r simrt.Req
	so := &statOut{}
	r.I0, r.S0, r.X = int64(dirfd), path, so
	_, err := call(opStat, &r)
	if err == nil {
		fillStat(stat, so)
	}
	return err
}

//go:norace
func Mkdir(path string, mode uint32) error { return Mkdirat(AT_FDCWD, path, mode) }

//go:norace
func Mkdirat(dirfd int, path string, mode uint32) error {
	if realMode() {
		simrt.Yield(-10)
		return unix.Mkdirat(dirfd, path, mode)
	}
	var r simrt.Req
	r.I0, r.S0 = int64(dirfd), path
	_, err := call(opMkdirat, &r)
	return err
}

//go:norace
func Unlink(path string) error { return Unlinkat(AT_FDCWD, path, 0) }

//go:norace
func Rmdir(path string) error { return Unlinkat(AT_FDCWD, path, AT_REMOVEDIR) }

//go:norace
func Unlinkat(dirfd int, path string, flags int) error {
	if realMode() {
		simrt.Yield(-10)
		return unix.Unlinkat(dirfd, path, flags)
	}
	var r simrt.Req
	r.I0, r.S0, r.I1 = int64(dirfd), path, int64(flags)
	_, err := call(opUnlinkat, &r)
	return err
}

//go:norace
func Rename(from, to string) error { return Renameat(AT_FDCWD, from, AT_FDCWD, to) }

//go:norace
func Renameat(olddirfd int, oldpath string, newdirfd int, newpath string) error {
	if realMode() {
		simrt.Yield(-10)
		return unix.Renameat(olddirfd, oldpath, newdirfd, newpath)
	}
	var r simrt.Req
	r.I0, r.S0, r.I1, r.S1 = int64(olddirfd), oldpath, int64(newdirfd), newpath
	_, err := call(opRenameat, &r)
	return err
}

//go:norace
func Renameat2(olddirfd int, oldpath string, newdirfd int, newpath string, flags uint) error {
	if flags != 0 && !realMode() {
		return syscall.EINVAL
	}
	return Renameat(olddirfd, oldpath, newdirfd, newpath)
}

//go:norace
func Link(oldpath, newpath string) error { return Linkat(AT_FDCWD, oldpath, AT_FDCWD, newpath, 0) }

//go:norace
func Linkat(olddirfd int, oldpath string, newdirfd int, newpath string, flags int) error {
	if realMode() {
		simrt.Yield(-10)
		return unix.Linkat(olddirfd, oldpath, newdirfd, newpath, flags)
	}
	var r simrt.Req
	r.I0, r.S0, r.I1, r.S1 = int64(olddirfd), oldpath, int64(newdirfd), newpath
	_, err := call(opLinkat, &r)
	return err
}

//go:norace
func ReadDirent(fd int, buf []byte) (n int, err error) {
	if realMode() {
		simrt.Yield(-10)
		return unix.ReadDirent(fd, buf)
	}
	var r simrt.Req
	r.I0, r.B = int64(fd), buf
	m, err := call(opReadDirent, &r)
	return int(m), err
}

func Getdents(fd int, buf []byte) (n int, err error) { return ReadDirent(fd, buf) }

// ParseDirent is the real parser: the simulated kernel emits genuine
// linux_dirent64 records.
func ParseDirent(buf []byte, max int, names []string) (consumed int, count int, newnames []string) {
	return unix.ParseDirent(buf, max, names)
}

var _ = unsafe.Pointer(nil)
