// Package simunix replaces golang.org/x/sys/unix in code under test. One
// in-memory POSIX-subset file system per simulation, owned by the scheduler
// goroutine; each system call is one atomic kernel step and a scheduling point.
// It models durability (what survives a power crash), injects faults (errno,
// short transfers, full disk, crash before any call) and has a pass-through mode
// in which every call goes to the real kernel.
package simunix

import (
	"fmt"
	"sort"
	"syscall"

	"verif/simrt"
)

type inode struct {
	ino     int
	isDir   bool
	data    []byte
	entries map[string]int // dirs
	nlink   int
	nopen   int
	osync   bool
	// pending data operations since the last fsync of this inode
	pending []dataOp
	// mtime: simulated time (ns) of the last change of the file's data or of the
	// directory's entries
	mtime int64
}

type dataOp struct {
	trunc bool
	off   int64 // write offset, or new size for trunc
	data  []byte
	// lost: an fsync of the file failed with EIO while this operation was
	// dirty. As on Linux, the pages are then marked clean: the data stays
	// readable from the cache but no later fsync writes it back, and it does
	// not survive a crash.
	lost bool
}

type jop struct {
	kind        string // create, mkdir, link, unlink, rename
	dir, dir2   int
	name, name2 string
	ino         int
	isDir       bool
	seq         int // syscall index that produced it
}

type dinode struct {
	isDir   bool
	data    []byte
	entries map[string]int
}

type fdesc struct {
	ino    *inode
	flags  int
	off    int64
	dirPos int    // number of entries emitted so far (d_off)
	dirCur string // last name emitted: the stream resumes after it, so an
	// entry that is not touched during the listing is returned exactly once
	refs int
}

// Fault is one injected fault.
type Fault struct {
	// At is the index (0-based) of the system call it applies to.
	At int `json:"at"`
	// Kind: "errno" (call fails with Errno, no effect), "short" (read/write
	// transfers only Short bytes, nil error), "crash" (power crash before the
	// call executes).
	Kind  string `json:"kind"`
	Errno int    `json:"errno,omitempty"`
	Short int    `json:"short,omitempty"`
	// Op, when set, makes At count calls of that system call only (e.g. the
	// 2nd fsync); Sticky applies the fault to every later call of it as well.
	Op     string `json:"op,omitempty"`
	Sticky bool   `json:"sticky,omitempty"`
}

// SysRec is one recorded system call.
type SysRec struct {
	N     int    `json:"n"`
	Task  int    `json:"task"`
	Op    string `json:"op"`
	Args  string `json:"args"`
	Ret   int64  `json:"ret"`
	Errno int    `json:"errno,omitempty"`
	Fault string `json:"fault,omitempty"`
}

// Config of a simulated kernel.
type Config struct {
	// Ordered journal mode: fsync of a file also forces all earlier metadata
	// operations (ext4-like). Otherwise (strict POSIX) it forces only that
	// file's data and size.
	Ordered bool
	Faults  []Fault
	// DiskBudget, when >0, is the number of data bytes that fit; beyond it
	// writes are cut short and then fail with ENOSPC.
	DiskBudget int64
	// Buggify: legal but unusual kernel behaviour.
	DirentsPerCall int   // >0: ReadDirent returns at most this many entries per call
	MaxWrite       int   // >0: Write/Pwrite accept at most this many bytes per call
	HighFds        bool  // descriptor numbers start at 1000
	SplitPwrite    bool  // a block-sized Pwrite is applied in two halves with a yield between
	SlowFsyncNs    int64 // >0: an fsync takes this much simulated time (other tasks run meanwhile)
	Trace          bool  // record SysRecs
}

// Kernel is the simulated kernel state. Only the scheduler goroutine (handlers)
// and, between phases, the driver goroutine touch it.
type Kernel struct {
	cfg     Config
	inodes  map[int]*inode
	nextIno int
	root    *inode
	fds     map[int]*fdesc
	journal []jop
	durable map[int]*dinode
	sim     *simrt.Sim
	// AfterSyscall, when set, runs on the scheduler after every system call
	// (index, name): a harness can look at the kernel's state at every instant
	// at which another process could
	AfterSyscall func(n int, op string)
	// Lost: writes dropped from write-back by failed fsyncs (see dataOp.lost)
	Lost []LostWrite
	// Fired: the faults that actually took effect, with the index of the system call they hit
	Fired   []FiredFault
	nsys    int
	opCount map[string]int
	used    int64
	Trace   []SysRec
	// FiredFaults counts faults that actually fired, by kind.
	crashed bool
	// Real, when set, passes every call through to the real kernel.
	Real bool
	// Quiet: system calls made while it is set are the harness's own
	// observations: they are not counted and no fault applies to them.
	Quiet bool
}

const rootIno = 1

// NewKernel creates an empty file system (just "/").
func NewKernel(cfg Config) *Kernel {
	k := &Kernel{cfg: cfg}
	k.reset()
	return k
}

func (k *Kernel) reset() {
	k.inodes = map[int]*inode{}
	k.fds = map[int]*fdesc{}
	k.durable = map[int]*dinode{}
	k.root = &inode{ino: rootIno, isDir: true, entries: map[string]int{}, nlink: 2}
	k.inodes[rootIno] = k.root
	k.nextIno = 2
	k.durable[rootIno] = &dinode{isDir: true, entries: map[string]int{}}
	k.journal = nil
}

// Attach makes k the kernel of simulation s.
func Attach(s *simrt.Sim, k *Kernel) { s.Kern = k; k.sim = s }

// touch stamps an inode with the simulated time (which only moves when tasks
// sleep or stall: two changes at one instant carry one timestamp, as with the
// coarse clocks of real file systems).
//
//go:norace
func (k *Kernel) touch(in *inode) {
	if k.sim != nil {
		in.mtime = k.sim.Now
	}
}

//go:norace
func kernelOf(s *simrt.Sim) *Kernel {
	k, _ := s.Kern.(*Kernel)
	if k == nil {
		panic("simunix: no kernel attached to the simulation")
	}
	return k
}

// SetFaults replaces the fault list and resets the syscall counter.
func (k *Kernel) SetFaults(f []Fault) { k.cfg.Faults = f; k.nsys = 0; k.opCount = nil; k.Fired = nil }

// SetConfig replaces the configuration (between phases).
func (k *Kernel) SetConfig(c Config) { k.cfg = c; k.nsys = 0 }

// Syscalls returns how many system calls have been made since the last reset.
func (k *Kernel) Syscalls() int { return k.nsys }

// ---- path resolution --------------------------------------------------------

func splitPath(p string) (abs bool, comps []string) {
	abs = len(p) > 0 && p[0] == '/'
	start := 0
	for i := 0; i <= len(p); i++ {
		if i == len(p) || p[i] == '/' {
			if i > start {
				c := p[start:i]
				if c != "." {
					comps = append(comps, c)
				}
			}
			start = i + 1
		}
	}
	return
}

const atFDCWD = -100

// lookupDir resolves all but the last component; returns the directory inode
// and the final name ("" means the path named the start directory itself).
func (k *Kernel) lookupParent(dirfd int, path string) (*inode, string, syscall.Errno) {
	if path == "" {
		return nil, "", syscall.ENOENT
	}
	abs, comps := splitPath(path)
	var d *inode
	if abs || dirfd == atFDCWD {
		d = k.root
	} else {
		f := k.fds[dirfd]
		if f == nil {
			return nil, "", syscall.EBADF
		}
		if !f.ino.isDir {
			return nil, "", syscall.ENOTDIR
		}
		d = f.ino
	}
	if len(comps) == 0 {
		return d, "", 0
	}
	for _, c := range comps[:len(comps)-1] {
		if c == ".." {
			// no parent pointers: only the root's ".." is supported
			if d == k.root {
				continue
			}
			return nil, "", syscall.ENOENT
		}
		n, ok := d.entries[c]
		if !ok {
			return nil, "", syscall.ENOENT
		}
		d = k.inodes[n]
		if !d.isDir {
			return nil, "", syscall.ENOTDIR
		}
	}
	last := comps[len(comps)-1]
	if last == ".." {
		return d, "", 0
	}
	return d, last, 0
}

func (k *Kernel) lookup(dirfd int, path string) (*inode, syscall.Errno) {
	d, name, e := k.lookupParent(dirfd, path)
	if e != 0 {
		return nil, e
	}
	if name == "" {
		return d, 0
	}
	n, ok := d.entries[name]
	if !ok {
		return nil, syscall.ENOENT
	}
	return k.inodes[n], 0
}

// ---- descriptors ---------------------------------------------------------------

func (k *Kernel) allocFd(f *fdesc) int {
	fd := 3
	if k.cfg.HighFds {
		fd = 1000
	}
	for k.fds[fd] != nil {
		fd++
	}
	f.refs = 1
	k.fds[fd] = f
	f.ino.nopen++
	return fd
}

// ---- system calls (scheduler side) ------------------------------------------------

const (
	oACCMODE = syscall.O_ACCMODE
)

func (k *Kernel) openat(dirfd int, path string, flags int) (int, syscall.Errno) {
	d, name, e := k.lookupParent(dirfd, path)
	if e != 0 {
		return -1, e
	}
	var in *inode
	if name == "" {
		in = d
	} else if n, ok := d.entries[name]; ok {
		if flags&syscall.O_CREAT != 0 && flags&syscall.O_EXCL != 0 {
			return -1, syscall.EEXIST
		}
		in = k.inodes[n]
	} else {
		if flags&syscall.O_CREAT == 0 {
			return -1, syscall.ENOENT
		}
		in = &inode{ino: k.nextIno, nlink: 1}
		k.nextIno++
		k.inodes[in.ino] = in
		d.entries[name] = in.ino
		k.touch(d)
		k.touch(in)
		k.journal = append(k.journal, jop{kind: "create", dir: d.ino, name: name, ino: in.ino, seq: k.nsys})
	}
	if flags&syscall.O_DIRECTORY != 0 && !in.isDir {
		return -1, syscall.ENOTDIR
	}
	if in.isDir && (flags&oACCMODE != syscall.O_RDONLY || flags&syscall.O_CREAT != 0) {
		return -1, syscall.EISDIR
	}
	if flags&syscall.O_TRUNC != 0 && !in.isDir && flags&oACCMODE != syscall.O_RDONLY {
		k.truncate(in, 0)
	}
	f := &fdesc{ino: in, flags: flags}
	if flags&syscall.O_SYNC != 0 {
		in.osync = true
	}
	return k.allocFd(f), 0
}

func (k *Kernel) truncate(in *inode, size int64) {
	old := int64(len(in.data))
	if size < old {
		in.data = in.data[:size:size]
		k.used -= old - size
	} else if size > old {
		in.data = append(in.data, make([]byte, size-old)...)
	}
	in.pending = append(in.pending, dataOp{trunc: true, off: size})
	k.touch(in)
}

func (k *Kernel) closefd(fd int) syscall.Errno {
	f := k.fds[fd]
	if f == nil {
		return syscall.EBADF
	}
	delete(k.fds, fd)
	f.refs--
	if f.refs == 0 {
		f.ino.nopen--
	}
	return 0
}

func (k *Kernel) writeAt(in *inode, p []byte, off int64) {
	end := off + int64(len(p))
	if end > int64(len(in.data)) {
		in.data = append(in.data, make([]byte, end-int64(len(in.data)))...)
	}
	copyBytes(in.data[off:end], p)
	cp := make([]byte, len(p))
	copyBytes(cp, p)
	in.pending = append(in.pending, dataOp{off: off, data: cp})
	k.touch(in)
	if in.osync {
		k.forceData(in)
	}
}

// forceData makes an inode's data durable.
func (k *Kernel) forceData(in *inode) {
	d := k.durable[in.ino]
	if d == nil {
		d = &dinode{isDir: in.isDir}
		if in.isDir {
			d.entries = map[string]int{}
		}
		k.durable[in.ino] = d
	}
	for _, op := range in.pending {
		if !op.lost {
			applyData(d, op, -1)
		}
	}
	in.pending = nil
}

// failSync: an fsync of fd failed with an I/O error. Everything dirty at that
// moment is dropped from write-back for good (see dataOp.lost).
func (k *Kernel) failSync(fd int) {
	f := k.fds[fd]
	if f == nil || f.ino.isDir {
		return
	}
	for i := range f.ino.pending {
		op := &f.ino.pending[i]
		if op.trunc {
			continue // the size is metadata: a data write-back error does not undo it
		}
		if !op.lost {
			k.Lost = append(k.Lost, LostWrite{Ino: f.ino.ino, Off: op.off, Len: len(op.data)})
		}
		op.lost = true
	}
}

// FiredFault is one fault that took effect on system call N.
type FiredFault struct {
	N int
	F Fault
}

// LostWrite is a write that a failed fsync dropped from write-back.
type LostWrite struct {
	Ino int
	Off int64
	Len int
}

func applyData(d *dinode, op dataOp, tornAt int) {
	if op.trunc {
		if op.off < int64(len(d.data)) {
			d.data = d.data[:op.off:op.off]
		} else {
			d.data = append(d.data, make([]byte, op.off-int64(len(d.data)))...)
		}
		return
	}
	data := op.data
	if tornAt >= 0 && tornAt < len(data) {
		data = data[:tornAt]
	}
	end := op.off + int64(len(data))
	if end > int64(len(d.data)) {
		d.data = append(d.data, make([]byte, end-int64(len(d.data)))...)
	}
	copy(d.data[op.off:end], data)
}

func (k *Kernel) forceJournal() {
	for _, j := range k.journal {
		k.applyJop(j)
	}
	k.journal = nil
}

func (k *Kernel) dnode(ino int, isDir bool) *dinode {
	d := k.durable[ino]
	if d == nil {
		d = &dinode{isDir: isDir}
		if isDir {
			d.entries = map[string]int{}
		}
		k.durable[ino] = d
	}
	return d
}

func (k *Kernel) applyJop(j jop) {
	switch j.kind {
	case "create", "mkdir":
		k.dnode(j.ino, j.kind == "mkdir")
		k.dnode(j.dir, true).entries[j.name] = j.ino
	case "link":
		k.dnode(j.dir, true).entries[j.name] = j.ino
	case "unlink":
		delete(k.dnode(j.dir, true).entries, j.name)
	case "rename":
		src := k.dnode(j.dir, true)
		if ino, ok := src.entries[j.name]; ok {
			delete(src.entries, j.name)
			k.dnode(j.dir2, true).entries[j.name2] = ino
		}
	}
}

func (k *Kernel) fsync(fd int) syscall.Errno {
	f := k.fds[fd]
	if f == nil {
		return syscall.EBADF
	}
	if f.ino.isDir {
		k.forceJournal()
		return 0
	}
	k.forceData(f.ino)
	if k.cfg.Ordered {
		k.forceJournal()
	}
	return 0
}

func (k *Kernel) syncAll() {
	k.forceJournal()
	inos := make([]int, 0, len(k.inodes))
	for n := range k.inodes {
		inos = append(inos, n)
	}
	sort.Ints(inos)
	for _, n := range inos {
		if in := k.inodes[n]; !in.isDir {
			k.forceData(in)
		}
	}
}

func (k *Kernel) mkdirat(dirfd int, path string) syscall.Errno {
	d, name, e := k.lookupParent(dirfd, path)
	if e != 0 {
		return e
	}
	if name == "" {
		return syscall.EEXIST
	}
	if _, ok := d.entries[name]; ok {
		return syscall.EEXIST
	}
	in := &inode{ino: k.nextIno, isDir: true, entries: map[string]int{}, nlink: 2}
	k.nextIno++
	k.inodes[in.ino] = in
	d.entries[name] = in.ino
	k.touch(d)
	k.touch(in)
	k.journal = append(k.journal, jop{kind: "mkdir", dir: d.ino, name: name, ino: in.ino, isDir: true, seq: k.nsys})
	return 0
}

func (k *Kernel) unlinkat(dirfd int, path string, flags int) syscall.Errno {
	d, name, e := k.lookupParent(dirfd, path)
	if e != 0 {
		return e
	}
	n, ok := d.entries[name]
	if !ok || name == "" {
		return syscall.ENOENT
	}
	in := k.inodes[n]
	const atRemovedir = 0x200
	if in.isDir {
		if flags&atRemovedir == 0 {
			return syscall.EISDIR
		}
		if len(in.entries) > 0 {
			return syscall.ENOTEMPTY
		}
	} else if flags&atRemovedir != 0 {
		return syscall.ENOTDIR
	}
	delete(d.entries, name)
	in.nlink--
	k.touch(d)
	k.journal = append(k.journal, jop{kind: "unlink", dir: d.ino, name: name, seq: k.nsys})
	return 0
}

func (k *Kernel) renameat(ofd int, opath string, nfd int, npath string) syscall.Errno {
	od, oname, e := k.lookupParent(ofd, opath)
	if e != 0 {
		return e
	}
	nd, nname, e := k.lookupParent(nfd, npath)
	if e != 0 {
		return e
	}
	n, ok := od.entries[oname]
	if !ok || oname == "" {
		return syscall.ENOENT
	}
	if nname == "" {
		return syscall.EEXIST
	}
	src := k.inodes[n]
	if src.isDir && k.isAncestor(src, nd) {
		return syscall.EINVAL
	}
	if tn, ok := nd.entries[nname]; ok {
		if tn == n {
			return 0
		}
		tgt := k.inodes[tn]
		if tgt.isDir && k.isAncestor(tgt, od) {
			return syscall.ENOTEMPTY // the target contains the source
		}
		if tgt.isDir && !src.isDir {
			return syscall.EISDIR
		}
		if !tgt.isDir && src.isDir {
			return syscall.ENOTDIR
		}
		if tgt.isDir && len(tgt.entries) > 0 {
			return syscall.ENOTEMPTY
		}
		tgt.nlink--
	}
	delete(od.entries, oname)
	nd.entries[nname] = n
	k.touch(od)
	k.touch(nd)
	k.journal = append(k.journal, jop{kind: "rename", dir: od.ino, name: oname, dir2: nd.ino, name2: nname, seq: k.nsys})
	return 0
}

// isAncestor reports whether dir a is d itself or an ancestor of d.
func (k *Kernel) isAncestor(a, d *inode) bool {
	if a == d {
		return true
	}
	for _, n := range a.entries {
		if c := k.inodes[n]; c != nil && c.isDir && k.isAncestor(c, d) {
			return true
		}
	}
	return false
}

func (k *Kernel) linkat(ofd int, opath string, nfd int, npath string) syscall.Errno {
	src, e := k.lookup(ofd, opath)
	if e != 0 {
		return e
	}
	nd, nname, e := k.lookupParent(nfd, npath)
	if e != 0 {
		return e
	}
	if nname == "" {
		return syscall.EEXIST
	}
	if _, ok := nd.entries[nname]; ok {
		return syscall.EEXIST
	}
	if src.isDir {
		return syscall.EPERM
	}
	nd.entries[nname] = src.ino
	src.nlink++
	k.touch(nd)
	k.journal = append(k.journal, jop{kind: "link", dir: nd.ino, name: nname, ino: src.ino, seq: k.nsys})
	return 0
}

// dirNames returns the live sorted entry list of a directory incl. . and ..
func dirNames(in *inode) []string {
	names := make([]string, 0, len(in.entries)+2)
	for n := range in.entries {
		names = append(names, n)
	}
	sort.Strings(names)
	return append([]string{".", ".."}, names...)
}

// readDirent fills buf with linux_dirent64 records. The directory stream is a
// cursor over the sorted names (".", ".." first): every call resumes after the
// last name it emitted, reading the live directory.
func (k *Kernel) readDirent(f *fdesc, buf []byte) int {
	all := dirNames(f.ino)
	var names []string
	switch {
	case f.dirPos == 0:
		names = all
	case f.dirPos == 1:
		names = all[1:]
	default:
		for _, n := range all[2:] {
			if f.dirPos == 2 || n > f.dirCur {
				names = append(names, n)
			}
		}
	}
	n := 0
	count := 0
	for _, name := range names {
		reclen := (19 + len(name) + 1 + 7) &^ 7
		if n+reclen > len(buf) {
			break
		}
		if k.cfg.DirentsPerCall > 0 && count >= k.cfg.DirentsPerCall {
			break
		}
		ino := uint64(f.ino.ino)
		typ := byte(4) // DT_DIR
		if name != "." && name != ".." {
			child := k.inodes[f.ino.entries[name]]
			ino = uint64(child.ino)
			if !child.isDir {
				typ = 8 // DT_REG
			}
		}
		rec := buf[n : n+reclen]
		for i := range rec {
			rec[i] = 0
		}
		for i := 0; i < 8; i++ {
			rec[i] = byte(ino >> (8 * i))
		}
		off := uint64(f.dirPos + 1)
		for i := 0; i < 8; i++ {
			rec[8+i] = byte(off >> (8 * i))
		}
		rec[16] = byte(reclen)
		rec[17] = byte(reclen >> 8)
		rec[18] = typ
		for i := 0; i < len(name); i++ {
			rec[19+i] = name[i]
		}
		n += reclen
		f.dirPos++
		if f.dirPos > 2 {
			f.dirCur = name
		}
		count++
	}
	return n
}

// ---- power crash ---------------------------------------------------------------

// CrashStats reports what a crash discarded.
type CrashStats struct {
	JournalKept, JournalLost int
	WritesKept, WritesLost   int
	Torn                     int
}

// Crash discards all volatile state. Survivors: durable state, a chosen prefix
// of the unforced journal, and for each file a chosen subset of its unforced
// data operations, the last surviving write possibly torn at a 512-byte
// boundary. choose(n) draws in [0,n).
func (k *Kernel) Crash(choose func(n int) int) CrashStats {
	var st CrashStats
	// journal prefix, biased toward keeping everything or nothing
	keep := len(k.journal)
	if len(k.journal) > 0 {
		switch choose(3) {
		case 0:
			keep = len(k.journal)
		case 1:
			keep = 0
		default:
			keep = choose(len(k.journal) + 1)
		}
	}
	// data survivors are chosen against the pre-crash pending lists
	inos := make([]int, 0, len(k.inodes))
	for n := range k.inodes {
		inos = append(inos, n)
	}
	sort.Ints(inos)
	for _, n := range inos {
		in := k.inodes[n]
		if in.isDir || len(in.pending) == 0 {
			continue
		}
		d := k.dnode(in.ino, false)
		mode := choose(3) // 0: all lost, 1: all kept, 2: per-op choice
		lastKept := -1
		kept := make([]bool, len(in.pending))
		for i := range in.pending {
			switch mode {
			case 0:
			case 1:
				kept[i] = true
			default:
				kept[i] = choose(2) == 1
			}
			if in.pending[i].lost {
				kept[i] = false
			}
			if kept[i] && !in.pending[i].trunc {
				lastKept = i
			}
		}
		for i, op := range in.pending {
			if !kept[i] {
				st.WritesLost++
				continue
			}
			st.WritesKept++
			torn := -1
			if i == lastKept && len(op.data) > 512 && choose(3) == 0 {
				torn = 512 * (1 + choose((len(op.data)-1)/512))
				st.Torn++
			}
			applyData(d, op, torn)
		}
	}
	for i, j := range k.journal {
		if i < keep {
			k.applyJop(j)
			st.JournalKept++
		} else {
			st.JournalLost++
		}
	}
	k.remount()
	return st
}

// remount rebuilds the volatile tree from the durable one.
func (k *Kernel) remount() {
	dur := k.durable
	k.inodes = map[int]*inode{}
	k.fds = map[int]*fdesc{}
	k.journal = nil
	k.used = 0
	newDur := map[int]*dinode{}
	var build func(ino int) *inode
	build = func(ino int) *inode {
		if in, ok := k.inodes[ino]; ok {
			in.nlink++
			return in
		}
		d := dur[ino]
		if d == nil {
			d = &dinode{}
		}
		in := &inode{ino: ino, isDir: d.isDir, nlink: 1}
		k.inodes[ino] = in
		nd := &dinode{isDir: d.isDir}
		newDur[ino] = nd
		if d.isDir {
			in.nlink = 2
			in.entries = map[string]int{}
			nd.entries = map[string]int{}
			names := make([]string, 0, len(d.entries))
			for n := range d.entries {
				names = append(names, n)
			}
			sort.Strings(names)
			for _, n := range names {
				c := build(d.entries[n])
				in.entries[n] = c.ino
				nd.entries[n] = c.ino
			}
		} else {
			in.data = append([]byte(nil), d.data...)
			nd.data = append([]byte(nil), d.data...)
			k.used += int64(len(in.data))
		}
		return in
	}
	k.root = build(rootIno)
	k.durable = newDur
	if k.nextIno < 2 {
		k.nextIno = 2
	}
}

// ---- direct access for drivers (outside Run) ------------------------------------

// WriteFile creates or replaces path with data and makes it durable.
func (k *Kernel) WriteFile(path string, data []byte) {
	fd, e := k.openat(atFDCWD, path, syscall.O_CREAT|syscall.O_RDWR|syscall.O_TRUNC)
	if e != 0 {
		panic(fmt.Sprintf("simunix.WriteFile %s: %v", path, e))
	}
	k.writeAt(k.fds[fd].ino, data, 0)
	k.closefd(fd)
	k.syncAll()
}

// WriteFileVolatile creates path durably as an EMPTY file and then writes data
// without flushing it: what a process leaves behind that wrote a file and died
// before its fsync, on a machine that stayed up.
func (k *Kernel) WriteFileVolatile(path string, data []byte) {
	k.WriteFile(path, nil)
	in, e := k.lookup(atFDCWD, path)
	if e != 0 {
		panic(fmt.Sprintf("simunix.WriteFileVolatile %s: %v", path, e))
	}
	k.writeAt(in, data, 0)
}

// MkdirAll creates a directory (one level) durably.
func (k *Kernel) Mkdir(path string) {
	if e := k.mkdirat(atFDCWD, path); e != 0 && e != syscall.EEXIST {
		panic(fmt.Sprintf("simunix.Mkdir %s: %v", path, e))
	}
	k.syncAll()
}

// ReadFile returns the volatile contents of path, or ok=false.
func (k *Kernel) ReadFile(path string) ([]byte, bool) {
	in, e := k.lookup(atFDCWD, path)
	if e != 0 || in.isDir {
		return nil, false
	}
	return append([]byte(nil), in.data...), true
}

// DataDurable reports whether the durable image of the file at path equals its
// current contents: nothing written to it would be lost by a power failure now
// (whether because it was never flushed or because a failed fsync dropped it).
// firstDiff is the first offset at which the two differ (-1: the sizes).
func (k *Kernel) DataDurable(path string) (ok bool, firstDiff int64) {
	in, e := k.lookup(atFDCWD, path)
	if e != 0 || in.isDir {
		return false, -1
	}
	var dur []byte
	if d := k.durable[in.ino]; d != nil {
		dur = d.data
	}
	n := len(dur)
	if len(in.data) < n {
		n = len(in.data)
	}
	for i := 0; i < n; i++ {
		if dur[i] != in.data[i] {
			return false, int64(i)
		}
	}
	if len(dur) != len(in.data) {
		return false, -1
	}
	return true, 0
}

// VolatileBlocks lists the blockSize-sized blocks of the file at path whose
// durable image differs from the current contents (a differing size counts as
// block -1).
func (k *Kernel) VolatileBlocks(path string, blockSize int) []int64 {
	in, e := k.lookup(atFDCWD, path)
	if e != 0 || in.isDir {
		return []int64{-1}
	}
	var dur []byte
	if d := k.durable[in.ino]; d != nil {
		dur = d.data
	}
	var out []int64
	if len(dur) != len(in.data) {
		out = append(out, -1)
	}
	n := len(dur)
	if len(in.data) < n {
		n = len(in.data)
	}
	for b := 0; b*blockSize < n; b++ {
		hi := (b + 1) * blockSize
		if hi > n {
			hi = n
		}
		for i := b * blockSize; i < hi; i++ {
			if dur[i] != in.data[i] {
				out = append(out, int64(b))
				break
			}
		}
	}
	return out
}

// ListDir returns the names in a directory, sorted.
func (k *Kernel) ListDir(path string) []string {
	in, e := k.lookup(atFDCWD, path)
	if e != 0 || !in.isDir {
		return nil
	}
	return dirNames(in)[2:]
}

// SyncAll makes everything durable (driver use).
func (k *Kernel) SyncAll() { k.syncAll() }

// OpenFds returns the number of open descriptors.
func (k *Kernel) OpenFds() int { return len(k.fds) }

// PendingJournal returns the kinds of unforced metadata operations, for oracles.
func (k *Kernel) PendingJournal() []string {
	var out []string
	for _, j := range k.journal {
		out = append(out, j.kind+":"+j.name)
	}
	return out
}

// copyBytes copies without going through the instrumented runtime helpers.
//
//go:norace
func copyBytes(dst, src []byte) int {
	n := len(dst)
	if len(src) < n {
		n = len(src)
	}
	for i := 0; i < n; i++ {
		dst[i] = src[i]
	}
	return n
}

//go:norace
func cloneStr(s string) string {
	b := make([]byte, len(s))
	for i := 0; i < len(s); i++ {
		b[i] = s[i]
	}
	return string(b)
}
