// Package simpackages replaces golang.org/x/tools/go/packages in the
// translator under test. Types are aliases of the real ones; Load runs the
// real loader once per (directory, pattern, build flags) and memoises the
// result, so that simulated runs are translation-bound, not `go list`-bound.
// A multi-pattern Load is the concatenation of the single-pattern loads in
// argument order (duplicates removed). The loader runs before the translator's
// workers start and is not part of the concurrency under test.
package simpackages

import (
	"strings"

	"golang.org/x/tools/go/packages"
)

type (
	Config      = packages.Config
	Package     = packages.Package
	Error       = packages.Error
	ErrorKind   = packages.ErrorKind
	LoadMode    = packages.LoadMode
	Module      = packages.Module
	ModuleError = packages.ModuleError
)

const (
	NeedName            = packages.NeedName
	NeedFiles           = packages.NeedFiles
	NeedCompiledGoFiles = packages.NeedCompiledGoFiles
	NeedImports         = packages.NeedImports
	NeedDeps            = packages.NeedDeps
	NeedExportFile      = packages.NeedExportFile
	NeedTypes           = packages.NeedTypes
	NeedSyntax          = packages.NeedSyntax
	NeedTypesInfo       = packages.NeedTypesInfo
	NeedTypesSizes      = packages.NeedTypesSizes
	NeedModule          = packages.NeedModule
	NeedEmbedFiles      = packages.NeedEmbedFiles
	NeedEmbedPatterns   = packages.NeedEmbedPatterns
	LoadFiles           = packages.LoadFiles
	LoadImports         = packages.LoadImports
	LoadTypes           = packages.LoadTypes
	LoadSyntax          = packages.LoadSyntax
	LoadAllSyntax       = packages.LoadAllSyntax
	UnknownError        = packages.UnknownError
	ListError           = packages.ListError
	ParseError          = packages.ParseError
	TypeError           = packages.TypeError
)

var (
	Visit       = packages.Visit
	PrintErrors = packages.PrintErrors
)

type memoEntry struct {
	pkgs []*Package
	err  error
}

var memo = map[string]memoEntry{}

// Loads counts real loader invocations (evidence).
var Loads int

// LastLoad is the list of package paths returned by the most recent Load.
var LastLoad []string

func Load(cfg *Config, patterns ...string) ([]*Package, error) {
	var out []*Package
	seen := map[*Package]bool{}
	LastLoad = nil
	if len(patterns) == 0 {
		patterns = []string{"."}
	}
	for _, p := range patterns {
		key := cfg.Dir + "\x00" + p + "\x00" + strings.Join(cfg.BuildFlags, " ")
		e, ok := memo[key]
		if !ok {
			c := *cfg
			pk, err := packages.Load(&c, p)
			e = memoEntry{pk, err}
			memo[key] = e
			Loads++
		}
		if e.err != nil {
			return nil, e.err
		}
		for _, pk := range e.pkgs {
			if !seen[pk] {
				seen[pk] = true
				out = append(out, pk)
				LastLoad = append(LastLoad, pk.PkgPath)
			}
		}
	}
	return out, nil
}
