// Package simpackages replaces golang.org/x/tools/go/packages in the
// translator under test. Types are aliases of the real ones; Load runs the
// real loader once per (directory, pattern, build flags) and memoises the
// result, so that simulated runs are translation-bound, not `go list`-bound.
// A multi-pattern Load is the concatenation of the single-pattern loads in
// argument order (duplicates removed). The loader runs before the translator's
// workers start and is not part of the concurrency under test.
package simpackages

import (
	"go/ast"
	"go/parser"
	"go/token"
	"path/filepath"
	"strings"
	"sync"

	"golang.org/x/tools/go/packages"
)

type (
	Config      = packages.Config
	Package     = packages.Package
	Error       = packages.Error
	ErrorKind   = packages.ErrorKind
	LoadMode    = packages.LoadMode
	Module      = packages.Module
	ModuleError = packages.ModuleError
)

const (
	NeedName            = packages.NeedName
	NeedFiles           = packages.NeedFiles
	NeedCompiledGoFiles = packages.NeedCompiledGoFiles
	NeedImports         = packages.NeedImports
	NeedDeps            = packages.NeedDeps
	NeedExportFile      = packages.NeedExportFile
	NeedTypes           = packages.NeedTypes
	NeedSyntax          = packages.NeedSyntax
	NeedTypesInfo       = packages.NeedTypesInfo
	NeedTypesSizes      = packages.NeedTypesSizes
	NeedModule          = packages.NeedModule
	NeedEmbedFiles      = packages.NeedEmbedFiles
	NeedEmbedPatterns   = packages.NeedEmbedPatterns
	LoadFiles           = packages.LoadFiles
	LoadImports         = packages.LoadImports
	LoadTypes           = packages.LoadTypes
	LoadSyntax          = packages.LoadSyntax
	LoadAllSyntax       = packages.LoadAllSyntax
	UnknownError        = packages.UnknownError
	ListError           = packages.ListError
	ParseError          = packages.ParseError
	TypeError           = packages.TypeError
)

var (
	Visit       = packages.Visit
	PrintErrors = packages.PrintErrors
)

type memoEntry struct {
	pkgs []*Package
	err  error
}

var memo = map[string]memoEntry{}

// Loads counts real loader invocations (evidence).
var Loads int

// LastLoad is the list of package paths returned by the most recent Load.
var LastLoad []string

// Permute, when set, turns Load into a fresh (un-memoised) load in which the
// files of each root package are handed to the parser — and therefore
// registered in the token.FileSet — in the order the hook returns (a
// permutation of 0..n-1 over the package's file list). This puts the real
// loader's parse-order nondeterminism (it parses files in concurrent
// goroutines, so FileSet bases are assigned in arrival order) behind a seam the
// plan decides.
var Permute func(pkgPath string, files []string) []int

// FreshLoads counts loads done with a file-order permutation.
var FreshLoads int

func freshLoad(cfg *Config, pattern string, hook func(string, []string) []int) ([]*Package, error) {
	// learn the file list from the memoised ordinary load
	base, err := memoLoad(cfg, pattern)
	if err != nil || len(base) == 0 {
		return base, err
	}
	order := map[string]int{} // file -> position in the enforced order
	for _, pk := range base {
		files := append([]string(nil), pk.CompiledGoFiles...)
		for pos, idx := range hook(pk.PkgPath, files) {
			if idx >= 0 && idx < len(files) {
				order[filepath.Clean(files[idx])] = pos
			}
		}
	}
	var mu sync.Mutex
	cond := sync.NewCond(&mu)
	next := 0
	c := *cfg
	c.Fset = token.NewFileSet()
	c.ParseFile = func(fset *token.FileSet, filename string, src []byte) (*ast.File, error) {
		pos, ok := order[filepath.Clean(filename)]
		if !ok {
			return parser.ParseFile(fset, filename, src, parser.AllErrors|parser.ParseComments)
		}
		mu.Lock()
		for next != pos {
			cond.Wait()
		}
		f, err := parser.ParseFile(fset, filename, src, parser.AllErrors|parser.ParseComments)
		next++
		cond.Broadcast()
		mu.Unlock()
		return f, err
	}
	FreshLoads++
	return packages.Load(&c, pattern)
}

func memoLoad(cfg *Config, p string) ([]*Package, error) {
	key := cfg.Dir + "\x00" + p + "\x00" + strings.Join(cfg.BuildFlags, " ")
	e, ok := memo[key]
	if !ok {
		c := *cfg
		pk, err := packages.Load(&c, p)
		e = memoEntry{pk, err}
		memo[key] = e
		Loads++
	}
	return e.pkgs, e.err
}

// universes: per module directory, one real multi-pattern load whose import
// graph is shared by all of its root packages (exactly as in a real
// multi-pattern invocation, where co-translated packages see the same
// *Package nodes for common dependencies).
var universes = map[string]map[string]*Package{}
var universePatterns = map[string][]string{}

// SetUniverse declares the patterns of dir that may be requested together.
func SetUniverse(dir string, patterns []string) { universePatterns[dir] = patterns }

func universe(cfg *Config) map[string]*Package {
	if u, ok := universes[cfg.Dir]; ok {
		return u
	}
	pats := universePatterns[cfg.Dir]
	if len(pats) == 0 {
		return nil
	}
	c := *cfg
	pkgs, err := packages.Load(&c, pats...)
	Loads++
	u := map[string]*Package{}
	if err == nil {
		byDir := map[string]*Package{}
		for _, pk := range pkgs {
			if len(pk.GoFiles) > 0 {
				byDir[filepath.Dir(pk.GoFiles[0])] = pk
			} else if len(pk.CompiledGoFiles) > 0 {
				byDir[filepath.Dir(pk.CompiledGoFiles[0])] = pk
			}
		}
		for _, p := range pats {
			if pk, ok := byDir[filepath.Clean(filepath.Join(cfg.Dir, p))]; ok {
				u[p] = pk
			}
		}
	}
	universes[cfg.Dir] = u
	return u
}

func Load(cfg *Config, patterns ...string) ([]*Package, error) {
	if Permute == nil {
		if u := universe(cfg); u != nil {
			var out []*Package
			seen := map[*Package]bool{}
			all := true
			for _, p := range patterns {
				pk, ok := u[p]
				if !ok {
					all = false
					break
				}
				if !seen[pk] {
					seen[pk] = true
					out = append(out, pk)
				}
			}
			if all && len(patterns) > 0 {
				LastLoad = nil
				for _, pk := range out {
					LastLoad = append(LastLoad, pk.PkgPath)
				}
				return out, nil
			}
		}
	}
	var out []*Package
	seen := map[*Package]bool{}
	LastLoad = nil
	if len(patterns) == 0 {
		patterns = []string{"."}
	}
	for _, p := range patterns {
		var pkgs []*Package
		var err error
		if Permute != nil {
			pkgs, err = freshLoad(cfg, p, Permute)
		} else {
			pkgs, err = memoLoad(cfg, p)
		}
		if err != nil {
			return nil, err
		}
		for _, pk := range pkgs {
			if !seen[pk] {
				seen[pk] = true
				out = append(out, pk)
				LastLoad = append(LastLoad, pk.PkgPath)
			}
		}
	}
	return out, nil
}
