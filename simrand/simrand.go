// Package simrand replaces "math/rand" in the translator under test: every
// value comes from the run's tape, so output that depends on a random number
// differs between the golden and a simulated run.
package simrand

import "verif/simrt"

func next(n int) int {
	if simrt.Active() == nil {
		return 0
	}
	return simrt.Choose(n)
}

func Int() int             { return next(1 << 30) }
func Intn(n int) int       { return next(n) }
func Int31() int32         { return int32(next(1 << 30)) }
func Int31n(n int32) int32 { return int32(next(int(n))) }
func Int63() int64         { return int64(next(1<<30))<<30 | int64(next(1<<30)) }
func Int63n(n int64) int64 { return Int63() % n }
func Uint32() uint32       { return uint32(next(1<<30))<<2 | uint32(next(4)) }
func Uint64() uint64       { return uint64(Int63())<<1 | uint64(next(2)) }
func Float64() float64     { return float64(next(1<<30)) / (1 << 30) }
func Float32() float32     { return float32(Float64()) }
func Seed(int64)           {}
func Perm(n int) []int {
	p := make([]int, n)
	for i := range p {
		p[i] = i
	}
	for i := n - 1; i > 0; i-- {
		j := next(i + 1)
		p[i], p[j] = p[j], p[i]
	}
	return p
}
func Shuffle(n int, swap func(i, j int)) {
	for i := n - 1; i > 0; i-- {
		swap(i, next(i+1))
	}
}
