// Package simchan is the channel seam: the rewriter turns `chan T` into
// *simchan.Chan[T] and channel operations (send, receive, close, range, select,
// len, cap) into calls of this package, so that blocking and the choice among
// ready select cases are decided by the simrt scheduler and its tape.
//
// All state changes happen in the calling task while it holds the baton; a
// real, never-contended mutex per channel gives the race detector
// happens-before edges between operations on the same channel (a superset of
// the edges Go guarantees, so it can hide but never invent a race).
package simchan

import (
	"sync"

	"verif/simrt"
)

// waiter is one blocked sender/receiver (or one case of a blocked select).
type waiter struct {
	done bool
	gate *simrt.Gate
	sel  *selState // non-nil: belongs to a select
	idx  int       // case index within the select
}

type selState struct {
	fired bool
	which int
	gate  simrt.Gate
}

//go:norace
func (w *waiter) isDone() bool {
	if w.sel != nil {
		return w.sel.fired
	}
	return w.done
}

//go:norace
func (w *waiter) fire() {
	w.done = true
	if w.sel != nil {
		w.sel.fired = true
		w.sel.which = w.idx
		w.sel.gate.Open()
		return
	}
	w.gate.Open()
}

// wake opens the waiter's gate without completing it (channel closed).
//
//go:norace
func (w *waiter) wake() {
	if w.sel != nil {
		w.sel.gate.Open()
		return
	}
	if w.gate != nil {
		w.gate.Open()
	}
}

// stale: a select waiter whose select already completed through another case.
//
//go:norace
func (w *waiter) stale() bool { return w.sel != nil && w.sel.fired }

type recvWaiter[T any] struct {
	waiter
	val T
	ok  bool
}

type sendWaiter[T any] struct {
	waiter
	val T
}

// Chan is the simulated channel.
type Chan[T any] struct {
	mu     sync.Mutex
	buf    []T
	cap    int
	closed bool
	recvq  []*recvWaiter[T]
	sendq  []*sendWaiter[T]
}

// Make creates a channel with the given capacity.
func Make[T any](n int) *Chan[T] {
	if n < 0 {
		panic("makechan: size out of range")
	}
	return &Chan[T]{cap: n}
}

func blockForever(what string) {
	simrt.WaitGate(what+" on nil channel", &simrt.Gate{})
}

func (c *Chan[T]) popRecv() *recvWaiter[T] {
	for len(c.recvq) > 0 {
		w := c.recvq[0]
		c.recvq = c.recvq[1:]
		if !w.stale() {
			return w
		}
	}
	return nil
}

func (c *Chan[T]) popSend() *sendWaiter[T] {
	for len(c.sendq) > 0 {
		w := c.sendq[0]
		c.sendq = c.sendq[1:]
		if !w.stale() {
			return w
		}
	}
	return nil
}

// trySend performs a send if it can proceed now; c.mu is held.
func (c *Chan[T]) trySend(v T) (ok bool) {
	if c.closed {
		c.mu.Unlock()
		panic("send on closed channel")
	}
	if w := c.popRecv(); w != nil {
		w.val, w.ok = v, true
		w.fire()
		return true
	}
	if len(c.buf) < c.cap {
		c.buf = append(c.buf, v)
		return true
	}
	return false
}

// tryRecv performs a receive if it can proceed now; c.mu is held.
func (c *Chan[T]) tryRecv() (v T, ok bool, done bool) {
	if len(c.buf) > 0 {
		v = c.buf[0]
		c.buf = c.buf[1:]
		if w := c.popSend(); w != nil {
			c.buf = append(c.buf, w.val)
			w.fire()
		}
		return v, true, true
	}
	if w := c.popSend(); w != nil {
		v = w.val
		w.fire()
		return v, true, true
	}
	if c.closed {
		return v, false, true
	}
	return v, false, false
}

// Send is `c <- v`.
func (c *Chan[T]) Send(v T) {
	simrt.Yield(-30)
	if c == nil {
		blockForever("send")
		return
	}
	c.mu.Lock()
	if c.trySend(v) {
		c.mu.Unlock()
		return
	}
	w := &sendWaiter[T]{val: v}
	w.gate = &simrt.Gate{}
	c.sendq = append(c.sendq, w)
	c.mu.Unlock()
	simrt.WaitGate("chan send", w.gate)
	c.mu.Lock()
	defer c.mu.Unlock()
	if !w.isDone() {
		panic("send on closed channel")
	}
}

// Recv2 is `v, ok := <-c`.
func (c *Chan[T]) Recv2() (T, bool) {
	simrt.Yield(-31)
	if c == nil {
		blockForever("receive")
		var z T
		return z, false
	}
	c.mu.Lock()
	if v, ok, done := c.tryRecv(); done {
		c.mu.Unlock()
		return v, ok
	}
	w := &recvWaiter[T]{}
	w.gate = &simrt.Gate{}
	c.recvq = append(c.recvq, w)
	c.mu.Unlock()
	simrt.WaitGate("chan receive", w.gate)
	c.mu.Lock()
	defer c.mu.Unlock()
	if w.isDone() {
		return w.val, w.ok
	}
	var z T
	return z, false
}

// Recv is `<-c`.
func (c *Chan[T]) Recv() T {
	v, _ := c.Recv2()
	return v
}

// Close is close(c).
func (c *Chan[T]) Close() {
	simrt.Yield(-32)
	if c == nil {
		panic("close of nil channel")
	}
	c.mu.Lock()
	defer c.mu.Unlock()
	if c.closed {
		panic("close of closed channel")
	}
	c.closed = true
	for _, w := range c.recvq {
		w.wake()
	}
	for _, w := range c.sendq {
		w.wake()
	}
}

func (c *Chan[T]) Len() int {
	if c == nil {
		return 0
	}
	c.mu.Lock()
	defer c.mu.Unlock()
	return len(c.buf)
}

func (c *Chan[T]) Cap() int {
	if c == nil {
		return 0
	}
	return c.cap
}

// ---- select --------------------------------------------------------------------

type selCase interface {
	lock()
	unlock()
	ready() bool
	perform() // c.mu held, ready() is true
	enqueue(s *selState, idx int)
	collect() // after a wake-up: copy out what a peer handed over
}

// Select collects the cases of one select statement.
type Select struct {
	cases []selCase
}

func NewSelect() *Select { return &Select{} }

// RecvCase is one receive case; Val/Ok hold the result when it is chosen.
type RecvCase[T any] struct {
	c   *Chan[T]
	w   *recvWaiter[T]
	val T
	ok  bool
}

func (r *RecvCase[T]) Val() T   { return r.val }
func (r *RecvCase[T]) Ok() bool { return r.ok }

func (r *RecvCase[T]) lock() {
	if r.c != nil {
		r.c.mu.Lock()
	}
}
func (r *RecvCase[T]) unlock() {
	if r.c != nil {
		r.c.mu.Unlock()
	}
}
func (r *RecvCase[T]) ready() bool {
	if r.c == nil {
		return false
	}
	if len(r.c.buf) > 0 || r.c.closed {
		return true
	}
	for _, w := range r.c.sendq {
		if !w.stale() {
			return true
		}
	}
	return false
}
func (r *RecvCase[T]) perform() { r.val, r.ok, _ = r.c.tryRecv() }
func (r *RecvCase[T]) enqueue(s *selState, idx int) {
	if r.c == nil {
		return
	}
	r.w = &recvWaiter[T]{}
	r.w.sel, r.w.idx = s, idx
	r.c.recvq = append(r.c.recvq, r.w)
}
func (r *RecvCase[T]) collect() {
	if r.w != nil {
		r.val, r.ok = r.w.val, r.w.ok
	}
}

// OnRecv adds `case v := <-c`.
func OnRecv[T any](s *Select, c *Chan[T]) *RecvCase[T] {
	r := &RecvCase[T]{c: c}
	s.cases = append(s.cases, r)
	return r
}

type sendCase[T any] struct {
	c *Chan[T]
	v T
}

func (x *sendCase[T]) lock() {
	if x.c != nil {
		x.c.mu.Lock()
	}
}
func (x *sendCase[T]) unlock() {
	if x.c != nil {
		x.c.mu.Unlock()
	}
}
func (x *sendCase[T]) ready() bool {
	if x.c == nil {
		return false
	}
	if x.c.closed || len(x.c.buf) < x.c.cap {
		return true
	}
	for _, w := range x.c.recvq {
		if !w.stale() {
			return true
		}
	}
	return false
}
func (x *sendCase[T]) perform() {
	if !x.c.trySend(x.v) {
		panic("simchan: send case was ready but could not proceed")
	}
}
func (x *sendCase[T]) enqueue(s *selState, idx int) {
	if x.c == nil {
		return
	}
	w := &sendWaiter[T]{val: x.v}
	w.sel, w.idx = s, idx
	x.c.sendq = append(x.c.sendq, w)
}
func (x *sendCase[T]) collect() {}

// OnSend adds `case c <- v`.
func OnSend[T any](s *Select, c *Chan[T], v T) {
	s.cases = append(s.cases, &sendCase[T]{c: c, v: v})
}

// Wait blocks until one case can proceed and returns its index; with
// hasDefault it returns -1 instead of blocking. Among several ready cases the
// tape chooses (Go chooses uniformly at random).
func (s *Select) Wait(hasDefault bool) int {
	simrt.Yield(-33)
	for {
		for _, c := range s.cases {
			c.lock()
		}
		var ready []int
		for i, c := range s.cases {
			if c.ready() {
				ready = append(ready, i)
			}
		}
		if len(ready) > 0 {
			i := ready[simrt.Choose(len(ready))]
			// unlock the others first: perform may panic (send on closed)
			for j, c := range s.cases {
				if j != i {
					c.unlock()
				}
			}
			func() {
				defer func() {
					if r := recover(); r != nil {
						panic(r) // trySend already unlocked its channel
					}
				}()
				s.cases[i].perform()
				s.cases[i].unlock()
			}()
			return i
		}
		if hasDefault {
			for _, c := range s.cases {
				c.unlock()
			}
			return -1
		}
		st := &selState{} // fresh per attempt: earlier waiters stay marked stale
		for i, c := range s.cases {
			c.enqueue(st, i)
		}
		for _, c := range s.cases {
			c.unlock()
		}
		if len(s.cases) == 0 {
			blockForever("select{}")
		}
		simrt.WaitGate("select", &st.gate)
		if selFired(st) {
			i := selWhich(st)
			s.cases[i].lock()
			s.cases[i].collect()
			s.cases[i].unlock()
			return i
		}
		// a channel was closed while we waited: mark our waiters stale and retry
		markFired(st)
	}
}

//go:norace
func selFired(s *selState) bool { return s.fired }

//go:norace
func selWhich(s *selState) int { return s.which }

//go:norace
func markFired(s *selState) { s.fired = true }
