package simchan_test

import (
	"testing"
	"time"

	"verif/simchan"
	"verif/simrt"
	"verif/simsync"
	"verif/simtime"
)

func run(seed uint64, f func()) simrt.Result {
	tape := simrt.NewTape(simrt.NewRand(seed), simrt.Strategy{Kind: "uniform"})
	s := simrt.New(simrt.Config{Tape: tape})
	return s.Run(f)
}

func TestPipeline(t *testing.T) {
	for _, capn := range []int{0, 1, 3} {
		for seed := uint64(1); seed <= 200; seed++ {
			sum := 0
			res := run(seed, func() {
				c := simchan.Make[int](capn)
				done := simchan.Make[struct{}](0)
				for p := 0; p < 2; p++ {
					p := p
					simrt.Go(func() {
						for i := 1; i <= 5; i++ {
							c.Send(i + 10*p)
						}
						done.Send(struct{}{})
					})
				}
				simrt.Go(func() {
					done.Recv()
					done.Recv()
					c.Close()
				})
				for {
					v, ok := c.Recv2()
					if !ok {
						break
					}
					sum += v
				}
			})
			if res.Outcome != simrt.Completed || sum != 15+15+50 {
				t.Fatalf("cap %d seed %d: outcome %v sum %d %s", capn, seed, res.Outcome, sum, res.Detail)
			}
		}
	}
}

func TestSelectTimeout(t *testing.T) {
	both := map[string]int{}
	for seed := uint64(1); seed <= 300; seed++ {
		got := ""
		res := run(seed, func() {
			c := simchan.Make[int](0)
			simrt.Go(func() {
				simtime.Sleep(10 * time.Millisecond)
				sel := simchan.NewSelect()
				simchan.OnSend(sel, c, 7)
				sel.Wait(true) // non-blocking send
			})
			sel := simchan.NewSelect()
			r := simchan.OnRecv(sel, c)
			tm := simchan.OnRecv(sel, simtime.After(10*time.Millisecond))
			switch sel.Wait(false) {
			case 0:
				got = "value"
				_ = r.Val()
			case 1:
				got = "timeout"
				_ = tm.Val()
			}
		})
		if res.Outcome != simrt.Completed {
			t.Fatalf("seed %d: %v %s", seed, res.Outcome, res.Detail)
		}
		both[got]++
	}
	if both["value"] == 0 || both["timeout"] == 0 {
		t.Fatalf("a tie between a send and a timer at the same instant must go both ways over seeds: %v", both)
	}
}

func TestDeadlockAndClosePanics(t *testing.T) {
	res := run(1, func() {
		c := simchan.Make[int](0)
		c.Recv()
	})
	if res.Outcome != simrt.Deadlock {
		t.Fatalf("want deadlock, got %v", res.Outcome)
	}
	panicked := false
	run(1, func() {
		defer func() { panicked = recover() != nil }()
		c := simchan.Make[int](1)
		c.Close()
		c.Send(1)
	})
	if !panicked {
		t.Fatal("send on closed channel must panic")
	}
}

func TestWaitGroupWithChannels(t *testing.T) {
	for seed := uint64(1); seed <= 100; seed++ {
		n := 0
		res := run(seed, func() {
			var wg simsync.WaitGroup
			jobs := simchan.Make[int](0)
			results := simchan.Make[int](4)
			for w := 0; w < 3; w++ {
				wg.Add(1)
				simrt.Go(func() {
					defer wg.Done()
					for {
						j, ok := jobs.Recv2()
						if !ok {
							return
						}
						results.Send(j * j)
					}
				})
			}
			simrt.Go(func() {
				for i := 1; i <= 4; i++ {
					jobs.Send(i)
				}
				jobs.Close()
			})
			simrt.Go(func() { wg.Wait(); results.Close() })
			for {
				v, ok := results.Recv2()
				if !ok {
					break
				}
				n += v
			}
		})
		if res.Outcome != simrt.Completed || n != 30 {
			t.Fatalf("seed %d: %v n=%d %s", seed, res.Outcome, n, res.Detail)
		}
	}
}
