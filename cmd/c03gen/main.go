// c03gen writes a generated batch: <dir>/prog.go, <dir>/registry.go, <dir>/../meta.json
package main

import (
	"encoding/json"
	"flag"
	"fmt"
	"os"
	"path/filepath"

	"verif/c03gen"
)

func main() {
	seed := flag.Uint64("seed", 1, "generator seed")
	n := flag.Int("n", 100, "number of functions")
	dir := flag.String("dir", ".", "package directory to write")
	meta := flag.String("meta", "", "meta file")
	flag.Parse()
	b := c03gen.Generate(*seed, *n)
	os.MkdirAll(*dir, 0755)
	if err := os.WriteFile(filepath.Join(*dir, "prog.go"), []byte(b.Source), 0644); err != nil {
		fmt.Println(err)
		os.Exit(2)
	}
	os.WriteFile(filepath.Join(*dir, "registry.go"), []byte(b.Registry()), 0644)
	if *meta != "" {
		j, _ := json.MarshalIndent(b, "", " ")
		os.WriteFile(*meta, j, 0644)
	}
}
