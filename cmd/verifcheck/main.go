// verifcheck is the orchestrator: it derives the instrumented overlay from
// /repo's current working tree, builds the driver binary, fans out worker
// processes, merges their results, applies the known-findings list, writes the
// evidence file and prints VIOLATION / KNOWN-FINDING lines.
//
// Exit status: 0 held on everything explored; 1 violation(s) not listed as
// known; 2 infrastructure trouble (never a VIOLATION).
package main

import (
	"crypto/sha256"
	"encoding/binary"
	"encoding/json"
	"fmt"
	"os"
	"os/exec"
	"path/filepath"
	"runtime"
	"sort"
	"strconv"
	"strings"
	"sync"
	"sync/atomic"
	"time"

	"verif/harness"
	"verif/rewrite"
)

var verifDir = "/verif"

func goEnv() []string {
	env := os.Environ()
	// goindex=0: the module-cache package index ignores -overlay; C16's sim
	// flavour overlays a file of a dependency in the module cache
	env = append(env, "GOFLAGS=-mod=mod", "GOPROXY=off", "GOSUMDB=off", "GOTOOLCHAIN=local", "GONOSUMDB=*", "GONOSUMCHECK=1", "GOWORK=off", "GODEBUG=goindex=0")
	return env
}

// outDir is where evidence and replay files go (VERIF_OUT overrides it for
// sensitivity runs against scratch trees, so that they do not overwrite the
// evidence of the real tree).
func outDir() string {
	if r := os.Getenv("VERIF_OUT"); r != "" {
		return r
	}
	return verifDir
}

func repoDir() string {
	if r := os.Getenv("VERIF_REPO"); r != "" {
		return r
	}
	return "/repo"
}

func infra(format string, a ...interface{}) {
	fmt.Printf("INFRA: "+format+"\n", a...)
	os.Exit(2)
}

func main() {
	if d := os.Getenv("VERIF_DIR"); d != "" {
		verifDir = d
	}
	if len(os.Args) < 2 {
		fmt.Println("usage: verifcheck run <Cxx> [--tier quick|thorough] | replay <file> | selftest <Cxx> | list")
		os.Exit(2)
	}
	switch os.Args[1] {
	case "run":
		tier := os.Getenv("VERIF_TIER")
		if tier == "" {
			tier = "quick"
		}
		id := ""
		for i := 2; i < len(os.Args); i++ {
			switch {
			case os.Args[i] == "--tier" && i+1 < len(os.Args):
				tier = os.Args[i+1]
				i++
			case strings.HasPrefix(os.Args[i], "--tier="):
				tier = strings.TrimPrefix(os.Args[i], "--tier=")
			default:
				id = os.Args[i]
			}
		}
		spec, ok := specs[id]
		if !ok {
			infra("unknown check %q", id)
		}
		os.Exit(runCheck(spec, tier))
	case "replay":
		if len(os.Args) < 3 {
			infra("replay needs a file")
		}
		os.Exit(replay(os.Args[2]))
	case "selftest":
		if len(os.Args) < 3 {
			infra("selftest needs a check id")
		}
		spec, ok := specs[os.Args[2]]
		if !ok {
			infra("unknown check %q", os.Args[2])
		}
		os.Exit(selftest(spec))
	case "build":
		// debugging aid: build the driver(s) and keep the work directory
		spec, ok := specs[os.Args[2]]
		if !ok {
			infra("unknown check %q", os.Args[2])
		}
		b := prepare(spec, spec.Flavours)
		for fl, bin := range b.bins {
			fmt.Println(fl, bin)
		}
	case "list":
		ids := make([]string, 0, len(specs))
		for id := range specs {
			ids = append(ids, id)
		}
		sort.Strings(ids)
		for _, id := range ids {
			fmt.Println(id, specs[id].Title)
		}
	default:
		infra("unknown command %q", os.Args[1])
	}
}

func seed() uint64 {
	if s := os.Getenv("VERIF_SEED"); s != "" {
		v, err := strconv.ParseUint(s, 10, 64)
		if err == nil {
			return v
		}
		v2, err := strconv.ParseInt(s, 10, 64)
		if err == nil {
			return uint64(v2)
		}
	}
	return 1
}

// ---- build ----------------------------------------------------------------------

type built struct {
	work     string
	bins     map[string]string // flavour -> path
	tree     string
	rwStats  rewrite.Stats
	buildS   float64
	overlay  string
	modfile  string
	rewrites []string
	env      []string // extra environment for the driver processes
	genSeed  uint64
	genN     int
	altWorks []string
}

func (b *built) cleanup() {
	os.RemoveAll(b.work)
	for _, w := range b.altWorks {
		os.RemoveAll(w)
	}
}

// forFl returns the spec that serves a flavour.
func (s *Spec) forFl(fl string) *Spec {
	if a, ok := s.Alt[fl]; ok {
		return a
	}
	return s
}

func prepare(spec *Spec, flavours []string) *built {
	return prepareGen(spec, flavours, seed(), spec.GenN)
}

// prepareGen is prepare for checks whose programs are generated at check time
// (C03): genSeed/genN select the batch.
func prepareGen(spec *Spec, flavours []string, genSeed uint64, genN int) *built {
	start := time.Now()
	work := filepath.Join(verifDir, ".work", fmt.Sprintf("%s%s-%d", spec.ID, spec.Tag, os.Getpid()))
	var altFl []string
	{
		var own []string
		for _, fl := range flavours {
			if _, ok := spec.Alt[fl]; ok {
				altFl = append(altFl, fl)
			} else {
				own = append(own, fl)
			}
		}
		flavours = own
	}
	os.RemoveAll(work)
	if err := os.MkdirAll(filepath.Join(work, "gen"), 0755); err != nil {
		infra("%v", err)
	}
	b := &built{work: work, bins: map[string]string{}, genSeed: genSeed, genN: genN}
	repo := repoDir()
	h := sha256.New()
	overlay := map[string]string{}
	siteBase := 0
	rewrites := spec.Rewrites
	if spec.ID == "C03" {
		rewrites = append(rewrites, prepareC03(b, overlay, h)...)
	}
	for _, rs := range rewrites {
		dir := filepath.Join(repo, rs.Dir)
		if filepath.IsAbs(rs.Dir) {
			dir = rs.Dir
		}
		var files []string
		for _, f := range rs.Files {
			files = append(files, filepath.Join(dir, f))
		}
		opt := rs.Opt
		opt.SiteBase = siteBase
		siteBase += 64 << 20
		var outs map[string][]byte
		var st rewrite.Stats
		var err error
		if rs.Pattern != "" {
			outs, st, err = rewrite.PackagePattern(repo, rs.Pattern, rs.Files, opt, goEnv())
		} else {
			outs, st, err = rewrite.Package(dir, files, opt, goEnv())
		}
		if err != nil {
			infra("rewriter: %v", err)
		}
		b.rwStats.Files += st.Files
		b.rwStats.Yields += st.Yields
		b.rwStats.GoStmts += st.GoStmts
		b.rwStats.Copies += st.Copies
		b.rwStats.MapRanges += st.MapRanges
		b.rwStats.MapRangesLeft += st.MapRangesLeft
		b.rwStats.ImportsSwapped += st.ImportsSwapped
		names := make([]string, 0, len(outs))
		for n := range outs {
			names = append(names, n)
		}
		sort.Strings(names)
		for _, n := range names {
			src, _ := os.ReadFile(n)
			h.Write([]byte(n))
			h.Write(src)
			rel, _ := filepath.Rel(repo, n)
			if strings.HasPrefix(rel, "..") {
				rel = filepath.Base(filepath.Dir(n)) + "/" + filepath.Base(n)
			}
			gen := filepath.Join(work, "gen", strings.ReplaceAll(rel, "/", "__"))
			if err := os.WriteFile(gen, outs[n], 0644); err != nil {
				infra("%v", err)
			}
			if rs.OverlayAs != "" {
				overlay[rs.OverlayAs] = gen
			} else {
				overlay[n] = gen
			}
			b.rewrites = append(b.rewrites, rel)
		}
	}
	b.tree = fmt.Sprintf("%x", h.Sum(nil))[:16]
	oj, _ := json.MarshalIndent(map[string]interface{}{"Replace": overlay}, "", " ")
	b.overlay = filepath.Join(work, "overlay.json")
	os.WriteFile(b.overlay, oj, 0644)
	// modfile pointing at the repo under test
	mod, err := os.ReadFile(filepath.Join(verifDir, spec.ModFile))
	if err != nil {
		infra("%v", err)
	}
	ms := strings.ReplaceAll(string(mod), "=> /repo", "=> "+repo)
	b.modfile = filepath.Join(work, "go.mod")
	os.WriteFile(b.modfile, []byte(ms), 0644)
	sum, _ := os.ReadFile(filepath.Join(verifDir, strings.TrimSuffix(spec.ModFile, ".mod")+".sum"))
	os.WriteFile(filepath.Join(work, "go.sum"), sum, 0644)
	var wg sync.WaitGroup
	errs := make([]string, len(flavours))
	for i, fl := range flavours {
		bin := filepath.Join(work, "drv-"+fl)
		b.bins[fl] = bin
		wg.Add(1)
		go func(i int, fl, bin string) {
			defer wg.Done()
			args := []string{"build", "-modfile=" + b.modfile, "-overlay=" + b.overlay, "-o", bin}
			if spec.TestBinary {
				args = []string{"test", "-c", "-vet=off", "-modfile=" + b.modfile, "-overlay=" + b.overlay, "-o", bin}
			}
			if fl == "race" {
				args = append(args, "-race")
			}
			if spec.BuildTags != "" {
				args = append(args, "-tags", spec.BuildTags)
			}
			args = append(args, spec.Driver)
			gobin := "go"
			if spec.GoBin != "" {
				gobin = spec.GoBin
			}
			cmd := exec.Command(gobin, args...)
			cmd.Dir = verifDir
			cmd.Env = goEnv()
			out, err := cmd.CombinedOutput()
			if err != nil {
				errs[i] = fmt.Sprintf("build (%s) failed: %v\n%s", fl, err, out)
			}
		}(i, fl, bin)
	}
	wg.Wait()
	for _, e := range errs {
		if e != "" {
			os.RemoveAll(work)
			infra("%s", e)
		}
	}
	for _, fl := range altFl {
		ab := prepareGen(spec.Alt[fl], []string{"plain"}, genSeed, genN)
		b.bins[fl] = ab.bins["plain"]
		b.altWorks = append(b.altWorks, ab.work)
		b.rewrites = append(b.rewrites, ab.rewrites...)
		b.rwStats.Yields += ab.rwStats.Yields
		b.rwStats.GoStmts += ab.rwStats.GoStmts
		b.rwStats.ChanOps += ab.rwStats.ChanOps
		b.rwStats.ImportsSwapped += ab.rwStats.ImportsSwapped
	}
	for pkg, envName := range spec.ExtraBuild {
		bin := filepath.Join(work, "extra-"+filepath.Base(pkg))
		cmd := exec.Command("go", "build", "-modfile="+b.modfile, "-overlay="+b.overlay, "-o", bin, pkg)
		cmd.Dir = verifDir
		cmd.Env = goEnv()
		if out, err := cmd.CombinedOutput(); err != nil {
			os.RemoveAll(work)
			infra("build of %s failed: %v\n%s", pkg, err, out)
		}
		b.env = append(b.env, envName+"="+bin)
		for _, fl := range flavours {
			if fl != "race" {
				continue
			}
			// the same command with the race detector, for the race flavour's
			// whole-binary plans
			rbin := bin + "-race"
			cmd := exec.Command("go", "build", "-race", "-modfile="+b.modfile, "-overlay="+b.overlay, "-o", rbin, pkg)
			cmd.Dir = verifDir
			cmd.Env = goEnv()
			if out, err := cmd.CombinedOutput(); err != nil {
				os.RemoveAll(work)
				infra("build of %s (-race) failed: %v\n%s", pkg, err, out)
			}
			b.env = append(b.env, envName+"_RACE="+rbin)
		}
		gd := filepath.Join(work, "golden")
		os.MkdirAll(gd, 0755)
		b.env = append(b.env, "VERIF_C06_GOLDEN="+gd)
	}
	b.buildS = time.Since(start).Seconds()
	return b
}

// ---- run ------------------------------------------------------------------------

type knownFinding struct {
	Property string `json:"property"`
	Key      string `json:"key"`
	Status   string `json:"status"`
	Commit   string `json:"commit,omitempty"`
	What     string `json:"what"`
}

func loadKnown() []knownFinding {
	var k []knownFinding
	b, err := os.ReadFile(filepath.Join(verifDir, "known_findings.json"))
	if err != nil {
		return nil
	}
	if err := json.Unmarshal(b, &k); err != nil {
		infra("known_findings.json: %v", err)
	}
	return k
}

func runWorkers(spec *Spec, b *built, fl string, tier string, n int, runs int, budget time.Duration, extra []string) ([]*harness.WorkerResult, []string) {
	var wg sync.WaitGroup
	var mu sync.Mutex
	var results []*harness.WorkerResult
	problems := make([]string, n)
	replayDir := filepath.Join(outDir(), "replays")
	start := time.Now()
	for w := 0; w < n; w++ {
		wg.Add(1)
		go func(w int) {
			defer wg.Done()
			// A worker is a chain of OS processes ("segments"): when the code
			// under test leaves process-wide daemons behind and something then
			// looks wrong, the driver stops without judging it and a fresh
			// process continues at exactly that plan.
			first, firstSub := -1, 0
			for seg := 0; ; seg++ {
				left := budget - time.Since(start)
				if seg > 0 && left < 2*time.Second {
					return
				}
				if seg == 0 {
					left = budget
				}
				args := []string{"-check", spec.ID, "-seed", fmt.Sprint(seed()), "-tier", tier, "-worker", fmt.Sprint(w), "-workers", fmt.Sprint(n),
					"-runs", fmt.Sprint(runs), "-budget", left.String(), "-out", b.work, "-replays", replayDir, "-flavour", fl, "-tree", b.tree,
					"-first", fmt.Sprint(first), "-firstsub", fmt.Sprint(firstSub), "-seg", fmt.Sprint(seg)}
				args = append(args, extra...)
				if spec.CrashOracle != "" {
					args = append(args, "-marker")
				}
				r, cont, prob := runSegment(spec, b, fl, w, seg, left, args)
				if prob != "" {
					problems[w] = prob
					return
				}
				if r != nil {
					mu.Lock()
					results = append(results, r)
					mu.Unlock()
				}
				if cont == nil {
					return
				}
				if cont[0] == first && cont[1] == firstSub {
					// the fresh process stopped at its very first plan again:
					// cannot happen (it starts untainted); do not spin
					problems[w] = fmt.Sprintf("worker %d (%s): continuation made no progress at run %d.%d", w, fl, first, firstSub)
					return
				}
				first, firstSub = cont[0], cont[1]
			}
		}(w)
	}
	wg.Wait()
	var probs []string
	for _, p := range problems {
		if p != "" {
			probs = append(probs, p)
		}
	}
	sort.SliceStable(results, func(i, j int) bool {
		if results[i].Worker != results[j].Worker {
			return results[i].Worker < results[j].Worker
		}
		return results[i].Seg < results[j].Seg
	})
	return results, probs
}

// runSegment runs one driver process. It returns the process's result, where a
// fresh process has to continue (nil: nowhere), or a problem.
func runSegment(spec *Spec, b *built, fl string, w, seg int, budget time.Duration, args []string) (*harness.WorkerResult, *[2]int, string) {
	cmd := driverCmd(spec.forFl(fl), b.bins[fl], args)
	cmd.Dir = b.work
	env := append(cmd.Env, "GOMAXPROCS=2", "VERIF_REPO="+repoDir(), "VERIF_DIR="+verifDir)
	env = append(env, b.env...)
	if fl == "race" {
		env = append(env, fmt.Sprintf("GORACE=halt_on_error=0 exitcode=0 log_path=%s/race-%d", b.work, w))
	}
	cmd.Env = env
	var out strings.Builder
	cmd.Stdout = &out
	cmd.Stderr = &out
	marker := filepath.Join(b.work, fmt.Sprintf("marker-%s-%s-%d.json", spec.ID, fl, w))
	os.Remove(marker)
	if err := cmd.Start(); err != nil {
		return nil, nil, err.Error()
	}
	done := make(chan error, 1)
	go func() { done <- cmd.Wait() }()
	grace := budget + 150*time.Second
	died := func() (*harness.WorkerResult, *[2]int, string) {
		// a crash of a process that earlier plans had left daemons in says
		// nothing unless a fresh process crashes on the same plan
		var mk harness.Replay
		if mb, err := os.ReadFile(marker); err == nil {
			json.Unmarshal(mb, &mk)
		}
		if v := crashViolation(spec, b, fl, w, out.String()); v != nil {
			crashMu.Lock()
			crashViols = append(crashViols, *v)
			crashMu.Unlock()
			return nil, nil, ""
		}
		if mk.Tainted {
			return nil, &[2]int{mk.Run, mk.Sub}, ""
		}
		if strings.Contains(out.String(), "synctest channel from outside bubble") || strings.Contains(out.String(), "synctest timer from outside bubble") {
			// a limit of testing/synctest, not a finding and not our trouble:
			// skip the plan (counted) and go on in a fresh process
			synctestSkips.Add(1)
			return nil, &[2]int{mk.Run, mk.Sub + 1}, ""
		}
		return nil, nil, fmt.Sprintf("worker %d (%s): died without a result\n%s", w, fl, tail(out.String(), 4000))
	}
	select {
	case err := <-done:
		if err != nil && cmd.ProcessState.ExitCode() != 2 {
			return died()
		}
	case <-time.After(grace):
		cmd.Process.Kill()
		return nil, nil, fmt.Sprintf("worker %d (%s): watchdog: still running %v after its budget", w, fl, grace-budget)
	}
	name := fmt.Sprintf("result-%s-%s-%d.json", spec.ID, fl, w)
	if seg > 0 {
		name = fmt.Sprintf("result-%s-%s-%d.%d.json", spec.ID, fl, w, seg)
	}
	rb, err := os.ReadFile(filepath.Join(b.work, name))
	if err != nil {
		return died()
	}
	var r harness.WorkerResult
	if err := json.Unmarshal(rb, &r); err != nil {
		return nil, nil, err.Error()
	}
	if r.Continue {
		return &r, &[2]int{r.ContinueRun, r.ContinueSub}, ""
	}
	return &r, nil, ""
}

// synctestSkips counts plans abandoned because the Go runtime aborted the
// driver over a cross-bubble channel or timer (reported in the evidence).
var synctestSkips atomic.Int64

var (
	crashMu    sync.Mutex
	crashViols []harness.FoundViol
)

// crashViolation: a worker died. If the check has a crash oracle and the plan
// it was executing kills a fresh process again (Go runtime fatal error such as
// "unlock of unlocked mutex" in the code under test), that is a violation
// witnessed by that plan; otherwise it stays an infrastructure problem.
func crashViolation(spec *Spec, b *built, fl string, w int, output string) *harness.FoundViol {
	if spec.CrashOracle == "" {
		return nil
	}
	marker := filepath.Join(b.work, fmt.Sprintf("marker-%s-%s-%d.json", spec.ID, fl, w))
	mb, err := os.ReadFile(marker)
	if err != nil {
		return nil
	}
	fatal := ""
	for _, l := range strings.Split(output, "\n") {
		if strings.HasPrefix(l, "fatal error:") || strings.HasPrefix(l, "panic:") {
			fatal = l
			break
		}
	}
	if fatal == "" {
		return nil
	}
	if strings.Contains(fatal, "synctest") {
		// a limit of testing/synctest (an object made in one bubble used in
		// another), never a statement about the code under test
		return nil
	}
	attributable := false
	for _, m := range []string{"unlock of unlocked", "Unlock of unlocked", "concurrent map", "all goroutines are asleep", "negative WaitGroup counter"} {
		if strings.Contains(fatal, m) {
			attributable = true
		}
	}
	reproduced := 0
	for i := 0; i < 10; i++ {
		cmd := driverCmd(spec.forFl(fl), b.bins[fl], []string{"-try", marker})
		cmd.Dir = b.work
		cmd.Env = append(cmd.Env, "GOMAXPROCS=2", "VERIF_REPO="+repoDir(), "VERIF_DIR="+verifDir)
		cmd.Env = append(cmd.Env, b.env...)
		outb, _ := cmd.CombinedOutput()
		if cmd.ProcessState != nil && cmd.ProcessState.ExitCode() != 0 && cmd.ProcessState.ExitCode() != 1 && strings.Contains(string(outb), "fatal error:") {
			reproduced++
		}
	}
	if reproduced == 0 && !attributable {
		return nil
	}
	var rp harness.Replay
	json.Unmarshal(mb, &rp)
	rp.Oracle, rp.Key = spec.CrashOracle, spec.CrashOracle
	rp.Message = fmt.Sprintf("the driver process died with a Go runtime %q while executing this plan; re-executed 10 times in fresh processes, it died again %d times (the plan belongs to a batch in which the Go runtime picks among goroutines runnable at the same instant)", fatal, reproduced)
	path := filepath.Join(outDir(), "replays", fmt.Sprintf("%s-%d-%d-%d-%s-crash.json", spec.ID, rp.Seed, rp.Run, rp.Sub, fl))
	os.MkdirAll(filepath.Dir(path), 0755)
	jb, _ := json.MarshalIndent(&rp, "", " ")
	os.WriteFile(path, jb, 0644)
	return &harness.FoundViol{Violation: harness.Violation{Oracle: rp.Oracle, Key: rp.Key, Msg: rp.Message}, Replay: path, Count: 1}
}

func tail(s string, n int) string {
	if len(s) > n {
		return s[len(s)-n:]
	}
	return s
}

func unionFps(files []string) int {
	set := map[uint64]struct{}{}
	for _, f := range files {
		b, err := os.ReadFile(f)
		if err != nil {
			continue
		}
		for i := 0; i+8 <= len(b); i += 8 {
			set[binary.LittleEndian.Uint64(b[i:])] = struct{}{}
		}
	}
	return len(set)
}

func runCheck(spec *Spec, tier string) int {
	start := time.Now()
	if tier != "quick" && tier != "thorough" {
		infra("unknown tier %q", tier)
	}
	ncpu := runtime.NumCPU()
	if ncpu > 16 {
		ncpu = 16
	}
	tp := spec.Quick
	if tier == "thorough" {
		tp = spec.Thorough
		if s := os.Getenv("VERIF_BUDGET_S"); s != "" {
			if v, err := strconv.Atoi(s); err == nil {
				tp.Budget = time.Duration(v) * time.Second
			}
		}
	}
	var all []*harness.WorkerResult
	var problems []string
	perFlavour := map[string]map[string]interface{}{}
	rounds := 1
	if tp.Rounds > 1 {
		rounds = tp.Rounds
	}
	var b *built
	var fpFiles, ntFiles []string
	var raceLogs strings.Builder
	var genSeeds []uint64
	for round := 0; round < rounds; round++ {
		gs := seed()
		if round > 0 {
			gs = seed()*1000003 + uint64(round)
		}
		genSeeds = append(genSeeds, gs)
		b = prepareGen(spec, spec.Flavours, gs, spec.GenN)
		for _, fl := range spec.Flavours {
			runs, budget := tp.Runs, tp.Budget
			if fl == "race" || fl == "sim" {
				runs = tp.RaceRuns
				if tier == "thorough" {
					budget = tp.Budget / 3
				}
			} else if tier == "thorough" && len(spec.Flavours) > 1 {
				budget = tp.Budget * 2 / 3
			}
			budget /= time.Duration(rounds)
			fstart := time.Now()
			rs, probs := runWorkers(spec, b, fl, tier, ncpu, runs, budget, nil)
			problems = append(problems, probs...)
			ev := 0
			for _, r := range rs {
				if r != nil {
					all = append(all, r)
					ev += r.Evaluations
				}
			}
			if old, ok := perFlavour[fl]; ok {
				ev += old["evaluations"].(int)
			}
			perFlavour[fl] = map[string]interface{}{"evaluations": ev, "wall_s": time.Since(fstart).Seconds(), "workers": ncpu, "rounds": rounds}
			// fingerprint sets are per round: keep them by renaming
			for _, r := range rs {
				if r == nil {
					continue
				}
				for _, f := range []*string{&r.FpFile, &r.NtFpFile} {
					nf := filepath.Join(verifDir, ".work", fmt.Sprintf("fp-%d-%d-%s", os.Getpid(), round, filepath.Base(*f)))
					os.Rename(*f, nf)
					*f = nf
				}
				fpFiles = append(fpFiles, r.FpFile)
				ntFiles = append(ntFiles, r.NtFpFile)
			}
		}
		logs, _ := filepath.Glob(filepath.Join(b.work, "race-*"))
		for _, l := range logs {
			c, _ := os.ReadFile(l)
			raceLogs.Write(c)
		}
		b.cleanup()
	}
	defer func() {
		for _, f := range append(fpFiles, ntFiles...) {
			os.Remove(f)
		}
	}()
	// merge
	ev := harness.WorkerResult{Probes: map[string]int{}, Faults: map[string]int{}, Inconclusive: map[string]int{}}
	var viols []harness.FoundViol
	var samples []interface{}
	for _, r := range all {
		ev.Evaluations += r.Evaluations
		ev.Generated += r.Generated
		ev.NonTrivial += r.NonTrivial
		ev.Events += r.Events
		ev.SimTime += r.SimTime
		ev.RaceErrors += r.RaceErrors
		for k, v := range r.Probes {
			ev.Probes[k] += v
		}
		for k, v := range r.Faults {
			ev.Faults[k] += v
		}
		for k, v := range r.Inconclusive {
			ev.Inconclusive[k] += v
		}
		for _, i := range r.Infra {
			problems = append(problems, fmt.Sprintf("%s worker %d: %s", r.Flavour, r.Worker, i))
		}
		viols = append(viols, r.Violations...)
		if len(samples) < 3 {
			samples = append(samples, r.Samples...)
		}
	}
	if n := synctestSkips.Load(); n > 0 {
		ev.Probes["plans_skipped_after_synctest_cross_bubble_abort"] = int(n)
	}
	viols = append(viols, crashViols...)
	distinct := unionFps(fpFiles)
	distinctNT := unionFps(ntFiles)
	// race logs: keep them next to the replays when there were reports
	raceLog := ""
	if ev.RaceErrors > 0 {
		sb := raceLogs
		raceLog = filepath.Join(outDir(), "replays", fmt.Sprintf("%s-%d-race.log", spec.ID, seed()))
		os.MkdirAll(filepath.Dir(raceLog), 0755)
		os.WriteFile(raceLog, []byte(sb.String()), 0644)
		// a report that involves the scheduler goroutine, or no code under
		// test at all, is a harness artefact: INFRA, never a violation
		if good, bad := classifyRaceLog(sb.String(), repoDir()); bad > 0 {
			problems = append(problems, fmt.Sprintf("race detector: %d report(s) are harness artefacts (scheduler goroutine involved or no frame of the code under test), %d involve the code under test; see %s", bad, good, raceLog))
		}
	}
	known := loadKnown()
	exit := 0
	nviol := 0
	sort.Slice(viols, func(i, j int) bool { return viols[i].Key < viols[j].Key })
	seenKey := map[string]bool{}
	printedKnown := map[string]bool{}
	for _, v := range viols {
		if seenKey[v.Key] {
			os.Remove(v.Replay) // one replay file per distinct violation key
			continue
		}
		seenKey[v.Key] = true
		isKnown := false
		for _, kf := range known {
			if kf.Property == spec.ID && kf.Status == "known" && (v.Key == kf.Key || strings.HasPrefix(v.Key, kf.Key+"/")) {
				isKnown = true
				if !printedKnown[kf.Key] {
					printedKnown[kf.Key] = true
					fmt.Printf("KNOWN-FINDING: property=%s %s [%s] replay=%s\n", spec.ID, kf.What, kf.Key, v.Replay)
				}
			}
		}
		if isKnown {
			continue
		}
		nviol++
		exit = 1
		fmt.Printf("VIOLATION property=%s replay=%s\n", spec.ID, v.Replay)
		fmt.Printf("  oracle=%s key=%s seen=%d\n  %s\n", v.Oracle, v.Key, v.Count, v.Msg)
		if strings.HasSuffix(v.Oracle, "race") && raceLog != "" {
			fmt.Printf("  race detector reports: %s\n", raceLog)
		}
	}
	wall := time.Since(start).Seconds()
	// probes stuck at zero
	var zero []string
	for _, p := range spec.ExpectProbes {
		if ev.Probes[p] == 0 && ev.Faults[p] == 0 {
			zero = append(zero, p)
		}
	}
	if len(zero) > 0 {
		fmt.Printf("WARNING: probes stuck at zero: %s\n", strings.Join(zero, ", "))
	}
	cov := map[string]interface{}{
		"evaluations":         ev.Evaluations,
		"distinct_nontrivial": distinctNT,
		"rule":                spec.Rule,
		"samples":             samples,
		"plans_generated":     ev.Generated,
		"nontrivial_runs":     ev.NonTrivial,
		"schedules_distinct":  distinct,
		"runs_per_hour":       int(float64(ev.Evaluations) / wall * 3600),
		"seeds":               []uint64{seed()},
		"sim_events":          ev.Events,
		"sim_time_ns":         ev.SimTime,
		"faults_fired":        ev.Faults,
		"probes":              ev.Probes,
		"probes_at_zero":      zero,
		"inconclusive":        ev.Inconclusive,
		"components":          spec.Components,
		"flavours":            perFlavour,
		"race_reports":        ev.RaceErrors,
		"rewriter":            map[string]interface{}{"files": b.rewrites, "yield_sites": b.rwStats.Yields, "go_statements": b.rwStats.GoStmts, "copies": b.rwStats.Copies, "map_ranges": b.rwStats.MapRanges, "map_ranges_left_native": b.rwStats.MapRangesLeft, "imports_swapped": b.rwStats.ImportsSwapped},
		"repo_tree":           b.tree,
		"build_s":             b.buildS,
		"exhaustive":          false,
		"known_findings_seen": len(printedKnown),
	}
	if spec.GenN > 0 {
		cov["generated_programs_per_round"] = spec.GenN
		cov["generator_seeds"] = genSeeds
	}
	if len(samples) == 0 {
		cov["samples"] = []interface{}{"no sample recorded"}
	}
	evidence := map[string]interface{}{
		"property_id": spec.ID,
		"tier":        tier,
		"seed":        int64(seed() & 0x7fffffffffffffff),
		"level":       spec.Level,
		"coverage":    cov,
		"assumptions": spec.Assumptions,
		"wall_s":      wall,
		"violations":  nviol,
	}
	if len(problems) > 0 {
		for _, p := range problems {
			fmt.Printf("INFRA: %s\n", p)
		}
		evidence["infra_problems"] = problems
		if nviol == 0 {
			exit = 2
		}
	}
	ej, _ := json.MarshalIndent(evidence, "", " ")
	os.MkdirAll(filepath.Join(outDir(), "evidence"), 0755)
	if err := os.WriteFile(filepath.Join(outDir(), "evidence", spec.ID+".json"), ej, 0644); err != nil {
		infra("%v", err)
	}
	fmt.Printf("%s %s: %d runs (%d plans), %d distinct executions, %d distinct non-trivial, %d violations, %.1fs (build %.1fs) seed=%d\n",
		spec.ID, tier, ev.Evaluations, ev.Generated, distinct, distinctNT, nviol, wall, b.buildS, seed())
	return exit
}

// ---- replay ----------------------------------------------------------------------

func replay(path string) int {
	rb, err := os.ReadFile(path)
	if err != nil {
		infra("%v", err)
	}
	var rp harness.Replay
	if err := json.Unmarshal(rb, &rp); err != nil {
		infra("%v", err)
	}
	spec, ok := specs[rp.Property]
	if !ok {
		infra("unknown property %q in replay file", rp.Property)
	}
	fl := rp.Flavour
	if fl == "" {
		fl = "plain"
	}
	var b *built
	if spec.ID == "C03" {
		var pl struct {
			GenSeed uint64 `json:"gen_seed"`
			N       int    `json:"n_programs"`
		}
		json.Unmarshal(rp.Plan, &pl)
		b = prepareGen(spec, []string{fl}, pl.GenSeed, pl.N)
	} else {
		b = prepare(spec, []string{fl})
	}
	defer b.cleanup()
	abs, _ := filepath.Abs(path)
	cmd := driverCmd(spec.forFl(fl), b.bins[fl], []string{"-replay", abs})
	cmd.Dir = b.work
	cmd.Env = append(cmd.Env, "GOMAXPROCS=2", "VERIF_REPO="+repoDir(), "VERIF_DIR="+verifDir)
	cmd.Env = append(cmd.Env, b.env...)
	if fl == "race" {
		cmd.Env = append(cmd.Env, "GORACE=halt_on_error=0 exitcode=0")
	}
	cmd.Stdout = os.Stdout
	cmd.Stderr = os.Stderr
	if err := cmd.Run(); err != nil {
		if cmd.ProcessState != nil {
			return cmd.ProcessState.ExitCode()
		}
		return 2
	}
	return 0
}

// ---- determinism self-test ----------------------------------------------------------

func selftest(spec *Spec) int {
	b := prepare(spec, spec.Flavours)
	defer b.cleanup()
	runs := 60
	if s := os.Getenv("VERIF_SELFTEST_RUNS"); s != "" {
		runs, _ = strconv.Atoi(s)
	}
	bad := 0
	for _, fl := range spec.Flavours {
		var ref []byte
		for i, gmp := range []string{"1", "4", "16", "2", "8", "1"} {
			log := filepath.Join(b.work, fmt.Sprintf("fplog-%s-%d", fl, i))
			cmd := driverCmd(spec.forFl(fl), b.bins[fl], []string{"-check", spec.ID, "-seed", fmt.Sprint(seed()), "-tier", "quick", "-workers", "1", "-runs", fmt.Sprint(runs),
				"-budget", "10m", "-out", b.work, "-replays", filepath.Join(b.work, "replays"), "-flavour", fl, "-fplog", log, "-selftest"})
			cmd.Dir = b.work
			cmd.Env = append(cmd.Env, b.env...)
			cmd.Env = append(cmd.Env, "GOMAXPROCS="+gmp, "VERIF_REPO="+repoDir(), "VERIF_DIR="+verifDir, "GORACE=halt_on_error=0 exitcode=0 log_path="+b.work+"/race-st")
			out, err := cmd.CombinedOutput()
			if err != nil {
				fmt.Printf("INFRA: selftest process failed: %v\n%s\n", err, tail(string(out), 3000))
				rb, _ := os.ReadFile(filepath.Join(b.work, fmt.Sprintf("result-%s-%s-0.json", spec.ID, fl)))
				fmt.Println(tail(string(rb), 3000))
				bad++
				continue
			}
			cur, _ := os.ReadFile(log)
			if ref == nil {
				ref = cur
			} else if string(ref) != string(cur) {
				bad++
				fmt.Printf("INFRA: NONDETERMINISM: %s flavour %s: process %d (GOMAXPROCS=%s) differs from process 0\n", spec.ID, fl, i, gmp)
				rl, cl := strings.Split(string(ref), "\n"), strings.Split(string(cur), "\n")
				for j := 0; j < len(rl) && j < len(cl); j++ {
					if rl[j] != cl[j] {
						fmt.Printf("  first difference at line %d: %q vs %q\n", j, rl[j], cl[j])
						break
					}
				}
			}
		}
		fmt.Printf("selftest %s flavour=%s: %d lines compared across 6 processes (GOMAXPROCS 1,4,16,2,8,1), in-process double execution on\n", spec.ID, fl, strings.Count(string(ref), "\n"))
	}
	if bad > 0 {
		return 2
	}
	fmt.Printf("selftest %s: deterministic\n", spec.ID)
	return 0
}

// classifyRaceLog splits ThreadSanitizer reports into those that involve the
// code under test (a frame under repo in at least one of the two access
// stacks, and no access by the scheduler goroutine) and harness artefacts.
func classifyRaceLog(log, repo string) (good, bad int) {
	for _, rep := range strings.Split(log, "==================") {
		if !strings.Contains(rep, "WARNING: DATA RACE") {
			continue
		}
		// access stacks come before the first "Goroutine " section
		acc := rep
		if i := strings.Index(rep, "\nGoroutine "); i >= 0 {
			acc = rep[:i]
		}
		inRepo := strings.Contains(acc, repo+"/")
		sched := strings.Contains(rep, "simrt.(*Sim).startScheduler")
		if inRepo && !sched {
			good++
		} else {
			bad++
		}
	}
	return
}

// driverCmd starts a driver: an ordinary binary takes its arguments directly, a
// test binary (C16: testing/synctest needs a *testing.T) through the environment.
func driverCmd(spec *Spec, bin string, args []string) *exec.Cmd {
	if spec.TestBinary {
		cmd := exec.Command(bin, "-test.run", "^TestDriver$", "-test.timeout", "0")
		cmd.Env = append(os.Environ(), "VERIF_DRV_ARGS="+strings.Join(args, "\x1f"))
		return cmd
	}
	cmd := exec.Command(bin, args...)
	cmd.Env = os.Environ()
	return cmd
}
