package main

import (
	"time"

	"verif/rewrite"
)

type RewriteSpec struct {
	Dir   string
	Files []string // empty = all non-test files of the package
	Opt   rewrite.Options
}

type TierParams struct {
	Runs     int // generated plans for the plain flavour (0 = until budget)
	RaceRuns int
	Budget   time.Duration
}

type Spec struct {
	ID           string
	Title        string
	Driver       string // package path of the driver, relative to /verif
	ModFile      string
	GoBin        string
	Rewrites     []RewriteSpec
	Flavours     []string
	Quick        TierParams
	Thorough     TierParams
	Level        string
	Rule         string
	Components   map[string]string
	Assumptions  []string
	ExpectProbes []string
}

var machImports = map[string]string{
	"sync":                  "verif/simsync",
	"golang.org/x/sys/unix": "verif/simunix",
	"syscall":               "verif/simunix",
}

// imports that would let the code under test reach the kernel around the seam
var machForbid = []string{"os", "io/ioutil", "os/exec", "net", "time"}

func machRewrites() []RewriteSpec {
	opt := rewrite.Options{Imports: machImports, Yields: true, GoStmt: true, Copy: true, MapRange: true, Forbid: machForbid}
	return []RewriteSpec{
		{Dir: "machine/disk", Opt: opt},
		{Dir: "machine/filesys", Opt: opt},
	}
}

var machComponents = map[string]string{
	"machine/disk (mem.go, file.go, disk.go)":          "real (compiled from /repo's working tree, statement-level yield points spliced in)",
	"machine/async_disk":                               "real",
	"machine/filesys (mem.go, dir.go, filesys.go)":     "real (same)",
	"sync (Mutex, RWMutex, WaitGroup, Cond)":           "stub: verif/simsync, scheduler-mediated, backed by real never-contended sync objects for the race detector",
	"golang.org/x/sys/unix (kernel, file system, fds)": "stub: verif/simunix in-memory kernel with durability model and fault injection; real kernel in the pass-through batches",
	"goroutine scheduling":                             "stub: verif/simrt baton scheduler driven by the seed's tape",
	"block copy (builtin copy on slices)":              "stub: verif/simrt.Copy, two-phase with a yield between",
}

var specs = map[string]*Spec{
	"C10": {
		ID: "C10", Title: "Concurrent disk operations are linearizable per block",
		Driver: "./drivers/machdrv", ModFile: "go.mod",
		Rewrites: machRewrites(), Flavours: []string{"plain", "race"},
		Quick:    TierParams{Runs: 24000, RaceRuns: 3000, Budget: 5 * time.Minute},
		Thorough: TierParams{Budget: 15 * time.Minute},
		Level:    "exploration",
		Rule: "plans: 2-4 client tasks x 1-5 ops (Read/ReadTo/Write(unique id)/Size) over 1-3 addresses of a 1-3 block MemDisk (2/3 of plans) or FileDisk on the simulated kernel (1/3), " +
			"each executed under one seeded schedule (uniform / sticky 1/2,1/8,1/32 / PCT d=1..3) with yields before every statement, at every lock operation, system call and in the middle of every block copy. " +
			"A run is non-trivial when at least two operations of different clients overlapped in time on one address and one of them was a write; distinct = distinct event-log fingerprints (FNV-64 over every scheduler event) among those.",
		Components:   machComponents,
		Assumptions:  []string{"sequentially consistent simulator: weak-memory effects are covered only through the race detector's happens-before check", "RWMutex writer preference is not modelled (explores a superset of real schedules)", "file disk: concurrent pwrite/pread atomicity is not assumed (split-pwrite buggify), so reads overlapping a write are unconstrained"},
		ExpectProbes: []string{"wlock_contended", "rlock_contended", "readers_overlap"},
	},
}
