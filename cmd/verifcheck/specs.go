package main

import (
	"time"

	"verif/rewrite"
)

type RewriteSpec struct {
	Dir   string   // relative to the repo under test, or absolute
	Files []string // empty = all non-test files of the package
	Opt   rewrite.Options
	// OverlayAs, when set, is the path the rewritten (single) file replaces
	// instead of its own.
	OverlayAs string
	// Pattern, when set, names the package by import path (a dependency in the
	// module cache), loaded from the repo under test's module; Files are base names.
	Pattern string
}

type TierParams struct {
	Runs     int // generated plans for the plain flavour (0 = until budget)
	RaceRuns int
	Budget   time.Duration
	Rounds   int // C03: number of generated batches (each needs its own build)
}

type Spec struct {
	ID         string
	Title      string
	Driver     string // package path of the driver, relative to /verif
	ModFile    string
	GoBin      string
	TestBinary bool
	GenN       int // C03: programs per generated batch
	// BuildTags are passed to go build for the driver (drivers that only
	// compile against the overlay hide behind a tag).
	BuildTags string
	// Alt: flavours served by a different driver / toolchain / overlay (C16's
	// \"sim\" flavour); Tag distinguishes the work directories.
	Alt map[string]*Spec
	Tag string
	// CrashOracle: when a worker process dies (Go runtime fatal error in the
	// code under test), re-execute the plan it was running; if the crash
	// reproduces it is reported as a violation with this oracle id.
	CrashOracle string
	// ExtraBuild: an additional binary built with the same overlay: import
	// path -> environment variable that tells the driver where it is.
	ExtraBuild   map[string]string
	Rewrites     []RewriteSpec
	Flavours     []string
	Quick        TierParams
	Thorough     TierParams
	Level        string
	Rule         string
	Components   map[string]string
	Assumptions  []string
	ExpectProbes []string
}

var machImports = map[string]string{
	"sync":                  "verif/simsync",
	"golang.org/x/sys/unix": "verif/simunix",
	"syscall":               "verif/simunix",
	"time":                  "verif/simtime",
}

// imports that would let the code under test reach the kernel around the seam
var machForbid = []string{"os", "io/ioutil", "os/exec", "net"}

func machRewrites() []RewriteSpec {
	opt := rewrite.Options{Imports: machImports, Yields: true, GoStmt: true, Copy: true, MapRange: true, Channels: true, Forbid: machForbid}
	return []RewriteSpec{
		{Dir: "machine/disk", Opt: opt},
		{Dir: "machine/filesys", Opt: opt},
	}
}

var machComponents = map[string]string{
	"machine/disk (mem.go, file.go, disk.go)":          "real (compiled from /repo's working tree, statement-level yield points spliced in)",
	"machine/async_disk":                               "real",
	"machine/filesys (mem.go, dir.go, filesys.go)":     "real (same)",
	"sync (Mutex, RWMutex, WaitGroup, Cond)":           "stub: verif/simsync, scheduler-mediated, backed by real never-contended sync objects for the race detector",
	"golang.org/x/sys/unix (kernel, file system, fds)": "stub: verif/simunix in-memory kernel with durability model and fault injection; real kernel in the pass-through batches",
	"goroutine scheduling":                             "stub: verif/simrt baton scheduler driven by the seed's tape",
	"block copy (builtin copy on slices)":              "stub: verif/simrt.Copy, two-phase with a yield between",
}

var trImports = map[string]string{
	"sync":                           "verif/simsync",
	"golang.org/x/tools/go/packages": "verif/simpackages",
	"time":                           "verif/simtime",
	"math/rand":                      "verif/simrand",
	"runtime":                        "verif/simruntime",
}

func trRewrites() []RewriteSpec {
	opt := rewrite.Options{Imports: trImports, Yields: true, FuncEntryOnly: true, GoStmt: true, MapRange: true, Channels: true}
	mainOpt := opt
	mainOpt.WrapMain = true
	mainOpt.FuncEntryOnly = false // cmd/goose is small: a yield before every statement
	return []RewriteSpec{
		{Dir: "", Opt: opt},
		{Dir: "internal/coq", Opt: opt},
		{Dir: "cmd/goose", Opt: mainOpt},
	}
}

var specs = map[string]*Spec{
	"C03": {
		ID: "C03", Title: "Concurrent programs: Go outcomes are GooseLang outcomes, over all schedules",
		Driver: "./drivers/c03drv", ModFile: "go.mod", GenN: 200,
		Flavours: []string{"plain", "race"},
		Quick:    TierParams{Runs: 40000, RaceRuns: 3000, Budget: 6 * time.Minute},
		Thorough: TierParams{Budget: 24 * time.Minute, Rounds: 6},
		Level:    "exploration",
		Rule: "per round a seeded batch of 200 closed, data-race-free-by-construction Go functions (go statements incl. nested and loop spawns, sync.Mutex, sync.Cond, sync.WaitGroup, machine.Sleep, machine.WaitTimeout polling loops; shared state in heap cells, captured vars, struct fields behind pointers with methods; classes: deterministic-by-construction and schedule-dependent) and a second package of 90 probe programs in eighteen shapes that the shipped goose rejects, or accepts but that no shipped example exercises (go f(args), RWMutex, return in a nested loop, assignment to a := local after capture, defer in a branch, go func literal with parameters, shared slice and map, break inside a switch clause, range over an integer, the address of a := local taken in several goroutines, a method value taken before its receiver is re-pointed, a wait loop on the length of a shared slice, a loop cursor advanced by a joined worker, a shadowing short declaration, a var-declared WaitGroup pointer with initialiser, adjacent critical sections, calls as operands of a method call, a blank target in a multiple assignment; translated with -ignore-errors and held to reject-or-faithful) is generated, translated by the goose built from the working tree, and compiled (sync->simsync, go->simrt.Go, yield before every statement) into the driver. " +
			"Each run: one program under one seeded Go schedule (uniform / sticky / PCT) gives Go's result and its order of synchronisation events; the GooseLang text of the same program is executed on the glang interpreter along that order (schedule transfer) and must give Go's result, otherwise 300 random interleavings are searched for it; deterministic-class programs are additionally run on 3 random complete interleavings each of which must return the same value without cell race, stuck thread, deadlock or divergence. An auxiliary non-simulation assertion (aux.api-correspondence) counts sync/machine calls in the Go source against the primitives in the emitted definition, because Signal and Broadcast are both no-ops in GooseLang and a swap is invisible to execution. The -race build re-runs the Go side only (validates that the generator's programs are race-free; a Go race is INFRA, not a violation). " +
			"Non-trivial: the Go run had more than two context switches; distinct = distinct fingerprints of (Go event log, GooseLang interleavings).",
		Components: map[string]string{"goose translator (cmd/goose, goose.go, types.go, internal/coq)": "real: built from /repo's working tree and run on the generated package",
			"generated Go programs":                       "real Go code, instrumented (yields, simrt.Go); sync and the machine time primitives are stubs (simsync, simmachine on the simulated clock)",
			"GooseLang semantics":                         "stub: verif/glang reader + interpreter of the emitted notation (Perennial/Coq is not installed); lock/cond/waitgroup/Fork semantics as in DESIGN.md appendix C; validated against the 86 test* functions of /repo's semantics package",
			"goroutine / thread scheduling on both sides": "stub: verif/simrt, one tape per run"},
		Assumptions:  []string{"my reading of GooseLang's library semantics (lock = CAS spin, cond signal/broadcast = no-ops, condWait = release;acquire, waitgroup = counter, non-atomic loads/stores whose races make the machine stuck) is part of the oracle and cannot be cross-checked against Perennial offline", "only programs of the generator's shape are explored"},
		ExpectProbes: []string{"go_runs", "guided_reproduced", "gl_interleavings"},
	},
	"C06": {
		ID: "C06", Title: "Translation is deterministic and packages do not influence each other",
		Driver: "./drivers/c06drv", ModFile: "go.mod",
		Rewrites: trRewrites(), Flavours: []string{"plain", "race"},
		ExtraBuild: map[string]string{"github.com/goose-lang/goose/cmd/goose": "VERIF_C06_GOOSE"},
		Quick:      TierParams{Runs: 1600, RaceRuns: 160, Budget: 6 * time.Minute},
		Thorough:   TierParams{Budget: 20 * time.Minute},
		Level:      "exploration",
		Rule: "each plan is one TranslatePackages invocation: 1-9 package patterns (subset, order and repetition drawn from the seed) out of /repo's 13 example packages or out of a scratch module holding every file of testdata/negative-tests as its own (failing) package plus copies of three example packages and hand-written synthetic packages (forward references across files, errors in several files, a struct shared by a defining and an importing package, FFI reached through a third package, two packages with seven conversion errors each, a package with a type error in each of three files, an importer of a package that does not compile, a package whose name differs from its directory and its importer), a flag combination (TypeCheck, AddSourceFileComments, SkipInterfaces), the value runtime.GOMAXPROCS(0)/NumCPU report to the code under test (1,2,4,16,64 or the default 8), a scheduling strategy for the per-package worker goroutines (uniform / sticky / PCT over all steps / PCT over synchronisation points only / demotion at rarely executed sites; yield at every function entry of the translator and printer, before every statement of cmd/goose, before and after every sync.Map operation) and a permutation for every map range. " +
			"Oracle: for every package byte-identical file text and identical error string compared with a golden translation of that package alone, produced by a FRESH PROCESS (the instrumented cmd/goose on the sequential schedule), in the slot of that package; no panic, no deadlock; in the -race build no race report. All patterns of a module come from one real multi-pattern load (shared import graph); 1/12 of the scratch plans reload afresh with each package's files handed to the parser in a permuted order; 1/16 of the plans run the instrumented cmd/goose binary itself under the simulated scheduler (exit status, stderr, written files; the output directory may already hold an earlier, longer output); boolean flags that the built command lists in its usage text and the shipped command does not have are passed at random in those plans (then one plan in four is a binary plan, and stderr is not compared because what such a flag prints is not constrained); in the race flavour the simulated command is a -race build and a report with a frame under the tree that does not involve the scheduler goroutine is a violation. " +
			"Non-trivial: at least two packages were co-translated and their workers were actually interleaved (more context switches than workers); distinct = distinct event-log fingerprints among those.",
		Components: map[string]string{"goose.go types.go idents.go errors.go interface.go internal/coq/coq.go": "real (compiled from /repo's working tree, yields at function entries, go statement and map ranges routed through the simulator)",
			"go/packages loader (go list, parser, type checker)": "real, memoised per (module, pattern): runs before the workers start and is not part of the concurrency", "sync.WaitGroup, goroutine scheduling, map iteration order, time, math/rand": "stub: verif/simsync, simrt, simtime, simrand"},
		Assumptions:  []string{"nondeterminism inside go list or the type checker is outside /repo and not explored (loaded once per pattern)", "most plans drive TranslatePackages through the library API; cmd/goose's main function is in the loop in the whole-binary plans only"},
		ExpectProbes: []string{"workers_interleaved", "package_with_errors"},
	},
	"C09": {
		ID: "C09", Title: "Disks are arrays of independent 4096-byte registers; Mem == File",
		Driver: "./drivers/machdrv", ModFile: "go.mod",
		Rewrites: machRewrites(), Flavours: []string{"plain"},
		Quick:    TierParams{Runs: 16000, Budget: 5 * time.Minute},
		Thorough: TierParams{Budget: 10 * time.Minute},
		Level:    "exploration",
		Rule: "fault-free configuration of the disk simulator: one client, a plan of 1-40 Read/ReadTo/Write/Size/Barrier calls on a disk of 0,1,2,3,8 or 100 blocks (one plan in sixteen: 64,128,1024,4096,4097 or 8192 blocks, where chunked storage has an empty or exactly full last chunk) with boundary addresses (size-1,size,size+1,2^32,2^52,2^64-1), wrong-sized write buffers and aliasing probes (scribble on the buffer after Write and on the slice returned by Read, one reusable buffer, dirty ReadTo buffers, a slice returned by Read held across later operations, the spare capacity of an earlier Read result appended into; addresses 2^52 and 2^52+1, where a*4096 wraps); block contents are the write's id laid out uniformly, as the zero block, as a repeat of earlier content, or with structure (only the last word, only the first word, one half set); a quarter of the plans close the disk and make another one or two (in memory: a new disk that must read zero; on a file: the same image, sometimes with another size); an API call that never returns is a violation; " +
			"the same plan is executed on 8 systems (disk/async_disk x Mem/File-on-simulated-kernel x direct/global wrappers; in the global systems a quarter of the calls go to the object behind the wrappers, disk.Get(), instead) and every tenth plan also on the real Linux kernel, each compared operation by operation with the register-array model and a neighbour scan after every write. " +
			"Non-trivial: some read returned a block produced by an earlier write of the plan; distinct = distinct plans (hash of the plan).",
		Components:   machComponents,
		Assumptions:  []string{"single client, no faults, no crash: this is the fault-free configuration; faults and reopen belong to C11, concurrency to C10", "ReadTo buffers of other sizes than 4096 are not generated (the property constrains only wrong-sized write buffers)"},
		ExpectProbes: []string{"scribble_after_write", "scribble_after_read", "real_kernel_runs"},
	},
	"C11": {
		ID: "C11", Title: "Disk contents persist across reopen; I/O failures are never silent",
		Driver: "./drivers/machdrv", ModFile: "go.mod",
		Rewrites: machRewrites(), Flavours: []string{"plain"},
		Quick:    TierParams{Runs: 1500, Budget: 5 * time.Minute},
		Thorough: TierParams{Budget: 15 * time.Minute},
		Level:    "fault_enumeration",
		Rule: "plan index mod 8 == 7 is batch (e), mod 4 == 3 batch (d), the others go by plan index mod 3. (a) reopen: prior image absent or of length 0,1,n,n*4096-1,4095,4096,4097,n*4096,n*4096+1,(n+3)*4096,random bytes (n = requested blocks), then 1-4 rounds of NewFileDisk(n_i)/operations/Close with n_i varying; after every open Size, every retained whole block and every new block (must be zero, read with Read and with ReadTo into a dirty buffer) are checked; every 15th plan on the real kernel. " +
			"(b) power crash: for a seeded plan with Barriers on an existing image, EVERY crash point (before each system call of the round) is executed, survivors chosen per the durability model, then reopen and compare every block not written since the last completed Barrier. " +
			"(c) single-fault enumeration: for a seeded plan EVERY system call x EVERY applicable fault (errno on openat/fstat/ftruncate/pread/pwrite/fsync/close; short pread 0/512; short pwrite 0/512; ENOSPC) is executed; the operation must panic/return an error or all later data must be exact; prior images of every length class, with a length/contents scan when a fault fired inside NewFileDisk that reported success; plus 6 sampled double faults per plan and, for the crash batch, every fsync failing (EIO) combined with crash points after it. (d) concurrent flush failure: 3-5 client tasks write their own block and call Barrier under seeded schedules while one fsync, or every fsync from some point on, fails (flushes take 1 ms of simulated time in 2/3 of the plans); then a power failure loses every unsynced write; a client whose Barrier returned normally must find its value after reopening. (e) concurrent readers under a failing read: 2-4 reader tasks Read/ReadTo blocks of a prior image under seeded schedules while one pread, or every pread from some point on, fails with EIO or comes back short (0, 512, 4095 bytes): a call that returns normally must have produced the block. In (c) a system call the shipped code never makes (fallocate, fdatasync, read, write, lseek, ...) gets a default menu, so a tree that starts using it has its failures injected as well; transfers that stay short (1000 or 0 bytes) from the first, second or third pwrite/pread on are injected too. " +
			"Non-trivial: (a) a reopen or prior image was involved, (b,c) the crash/fault fired inside an operation; distinct = distinct concrete plans (plan + fault position/kind).",
		Components:   machComponents,
		Assumptions:  []string{"crash model: durable = fsynced data + journal prefix; unsynced writes persist in any subset, the last possibly torn at 512 bytes; an fsync that fails with EIO drops the data that was dirty from write-back for good (Linux semantics), and a loss that a Barrier reported by panicking counts as reported; real ext4 behaviour cannot be observed in this VM", "the image file's directory entry is durable before the crash batch starts (fsync of the parent directory is outside C11)"},
		ExpectProbes: []string{"batch_reopen", "batch_crash", "batch_fault", "crash", "crash_after_barrier", "crash_lost_unsynced_write", "real_kernel_runs"},
	},
	"C12": {
		ID: "C12", Title: "MemFs == DirFs == reference model on all valid histories",
		Driver: "./drivers/machdrv", ModFile: "go.mod",
		Rewrites: machRewrites(), Flavours: []string{"plain"},
		Quick:    TierParams{Runs: 6000, Budget: 5 * time.Minute},
		Thorough: TierParams{Budget: 12 * time.Minute},
		Level:    "exploration",
		Rule: "fault-free configuration of the filesystem simulator: one client, 1-3 directories (named d0,d1,d2, or so that one name is a prefix of another: d,d1,d12 / db,db.old,db2), file names a,b,a.tmp,c or, in a fifth of the plans, unusual legal ones (log..old, ..., a b, -x, .hidden, x~), a plan of 1-40 calls (in the global-wrapper systems a fifth of them go to the Filesys object behind the wrappers instead) (Create/Append/Close/Open/ReadAt/Delete/Link/AtomicCreate/List, plus one bulk creation of 110-190 names for List's refill loop) generated against the reference model so that every call respects the documented preconditions; names from {a,b,a.tmp,c}, data sizes 0..70000, offsets/lengths around the file size, aliasing probes (scribble on data after Append/AtomicCreate and on the slice returned by ReadAt). " +
			"The same plan runs on MemFs and on DirFs over the simulated kernel (ReadDirent limited to 1-3 entries per call in half of the runs, high descriptor numbers in a quarter), each directly and through the package-level wrappers, and every tenth plan on DirFs over the real Linux kernel; every result is compared with the model (descriptors up to renaming and required to be fresh, List as a set) and all files are re-read at the end. " +
			"Non-trivial: some ReadAt returned data; distinct = distinct plans.",
		Components:   machComponents,
		Assumptions:  []string{"only histories that respect the documented preconditions are generated (Open/Delete of existing names, Link from an existing name, Append on Create descriptors, ReadAt on Open descriptors, Close once)", "single client, no faults, no crash; those belong to C13/C14"},
		ExpectProbes: []string{"scribble_after_append", "scribble_after_readat", "scribble_after_atomiccreate", "list_over_100_names", "real_kernel_runs", "stub_validation_scripts"},
	},
	"C13": {
		ID: "C13", Title: "AtomicCreate is all-or-nothing, durable-before-visible, interference-free",
		Driver: "./drivers/machdrv", ModFile: "go.mod",
		Rewrites: machRewrites(), Flavours: []string{"plain", "race"},
		Quick:    TierParams{Runs: 6400, RaceRuns: 1600, Budget: 5 * time.Minute},
		Thorough: TierParams{Budget: 15 * time.Minute},
		Level:    "fault_enumeration",
		Rule: "every 8th plan is batch (4), the others go by plan index mod 4. (0,1) crash-point enumeration on DirFs over the simulated kernel: prior state = destination absent or old content (0..5000 bytes), optionally a leftover name.tmp of an interrupted earlier call (shorter, equal or longer than the new data; planted at the root and beside the destination), data of 0,1,100,4096 or 70000 bytes, write(2) limited to a few bytes per call in half of the plans; EVERY crash point (before each system call of the call) is executed in strict or ordered journal mode, crash survivors chosen per the durability model, remounted and read: the destination must be the previous state or exactly the data; then a fresh fault-free AtomicCreate over whatever was left behind must yield exactly its data. " +
			"(2) single-fault enumeration: EVERY system call of the call x {errno (EACCES/ENOSPC/EIO), short write of 1 or half the bytes}: the call panics or returns; the destination is old-or-new at that moment and exactly new if it returned; then the fresh call as above; every fsync of the call is additionally failed with EIO and followed by a power failure 1..8 system calls later (whatever the call did after the failure -- gave up, retried, renamed -- the name holds the old or the new contents), and the crash batch also crashes right after the call has returned. In (0,1,2), after EVERY system call of the call (and of the fresh call that follows an interrupted one) the destination as any other process would see it must be the previous state or exactly the data (ac.instant.partial). " +
			"In a third of the plans with at least 4096 bytes the data contains an aligned all-zero block; in a sixth of the crash plans the leftover staging file already holds exactly the data, unflushed. (3) concurrency: 1-3 creator tasks (independent names / same name in different directories / same name in one directory / independent destinations whose directory and name collide when joined by a separator, e.g. d0 + a-x and d0-a + x / the names x and x.tmp) plus a reader task under seeded schedules, on DirFs (2/3) or MemFs (1/3): every read sees the old state or one creator's complete data, no creator panics, each destination ends as the complete data of one of its creators. (4) sequential histories centred on AtomicCreate (AtomicCreate / Delete / Create+Append / Link / Open+ReadAt over 1-3 directories, on MemFs and DirFs) checked operation by operation and re-read at the end: a completed call stays exact under later unrelated operations. " +
			"Non-trivial: a fault/crash fired inside the call or a leftover temp file existed (0-2), operations overlapped (3); distinct = distinct concrete plans resp. event-log fingerprints.",
		Components:   machComponents,
		Assumptions:  []string{"crash model: durable = fsynced data + journal prefix (strict: fsync(file) forces only that file; ordered: also all earlier metadata); unsynced writes persist in any subset, possibly torn; an fsync that fails with EIO drops the data that was dirty from write-back for good (a retried fsync that returns 0 has flushed nothing)", "visibility after a crash is what a remounted DirFs reads"},
		ExpectProbes: []string{"batch_crash", "batch_fault", "batch_conc", "crash", "crash_new_visible", "crash_old_visible", "crash_with_rename_unforced", "fresh_call_over_leftover_tmp", "call_panicked_on_fault", "fault_absorbed", "conc_independent", "conc_same-name-same-dir", "conc_same-name-different-dirs"},
	},
	"C16": {
		ID: "C16", Title: "Remaining machine primitives meet their modelled contracts (WaitTimeout clause)",
		Driver: "./drivers/c16drv", ModFile: "go.mod", GoBin: "/opt/veriftools/go1.26.8/bin/go", TestBinary: true,
		CrashOracle: "wt.crash",
		Alt: map[string]*Spec{"sim": {
			ID: "C16", Tag: "sim", Driver: "./drivers/c16sim", ModFile: "go.mod", BuildTags: "verifoverlay",
			Rewrites: []RewriteSpec{
				{Dir: "machine", Files: []string{"prims.go", "proph.go"}, Opt: rewrite.Options{Imports: map[string]string{"sync": "verif/simsync", "time": "verif/simtime"}, Yields: true, GoStmt: true, Channels: true}},
				{Pattern: "github.com/goose-lang/primitive", Files: []string{"prims.go"}, Opt: rewrite.Options{Imports: map[string]string{"sync": "verif/simsync", "time": "verif/simtime"}, Yields: true, GoStmt: true, Channels: true}},
			},
		}},
		Rewrites: []RewriteSpec{{Dir: "machine", Files: []string{"prims.go"}, Opt: rewrite.Options{Yields: true, YieldCall: "synyield.Point", YieldImport: "verif/synyield"}}},
		Flavours: []string{"plain", "sim"},
		Quick:    TierParams{Runs: 40000, RaceRuns: 30000, Budget: 5 * time.Minute},
		Thorough: TierParams{Budget: 12 * time.Minute},
		Level:    "exploration",
		Rule: "each plan is one sync.Cond, a sequence of 1-3 machine.WaitTimeout calls (timeouts 0,1,2,10,100,10000,2^32 ms or random < 300 ms; optional pauses with the lock released between calls) and 0-4 concurrent events at distinct simulated instants aimed before / just before / just after / long after a timeout: Signal, Broadcast, or a plain cond.Wait waiter; executed with the real machine.WaitTimeout -> primitive.WaitTimeout, real sync and time under testing/synctest's fake clock (go1.26.8). " +
			"Oracles against an ideal timed wait on a FIFO condition variable: returns holding the lock (TryLock fails), within 1 ms of simulated time after the timeout, within 1 ms after the Broadcast/Signal that reaches it, never panics, the bubble drains. Every 64th plan is the auxiliary, non-simulation assertion set for the three pure clauses (UInt64ToString, MapClear, Assume/Assert); it is not counted as non-trivial. " +
			"A third of the plans is the perturb batch: events tie with call starts/expiries, runtime.Gosched nudges are spliced into machine/prims.go, order is recovered from stamps taken under the mutex; its outcome is the Go runtime's choice, so its replays reproduce with high probability only. " +
			"The sim flavour runs the same kind of plans (ties included) on a second driver in which machine/prims.go AND the primitive dependency's prims.go are compiled with sync->simsync, time->simtime, channels and select->simchan, go->simrt.Go and a yield before every statement, under the deterministic simrt scheduler: every interleaving between caller, helper goroutine, timer and signallers and every tie is decided by the tape and replays exactly; a quarter of the sim plans spread calls and events over two condition variables (half of those with their own mutexes, half sharing one), some let a signaller hold the lock across a full second of a ten-second wait before it signals, and a third inject stalls (one yield in 8/40/200 advances the clock by 1 ns..10 ms while the task stands still; the time bounds grow by the stall time injected while the call was waited for); every 8th sim plan is instead 2-3 concurrent callers of machine.UInt64ToString on a few numbers that alias under power-of-two and decimal reductions, each result compared with strconv.FormatUint (a shared cache or buffer inside the primitive would make the clause schedule-dependent). " +
			"Non-trivial: at least one concurrent event or more than one call (synctest), more than three context switches (sim); distinct = distinct (plan, observed return times) resp. event-log fingerprints.",
		Components: map[string]string{"machine/prims.go WaitTimeout": "real", "github.com/goose-lang/primitive v0.1.0 WaitTimeout": "real", "sync.Cond, sync.Mutex, goroutines": "real", "time (clock, timers)": "stub: testing/synctest fake clock of go1.26.8; goroutine choice inside the bubble is the Go runtime's (events are placed at distinct instants so that it cannot change the outcome)",
			"sim flavour": "machine/prims.go and primitive@v0.1.0/prims.go real, statement-level yields; sync, time, channels/select, goroutine scheduling are stubs (simsync, simtime, simchan, simrt)"},
		Assumptions:  []string{"testing/synctest cannot advance time while a goroutine is blocked on a sync.Mutex, so no task holds the lock across simulated time (lock-hold delays are not explored)", "early (spurious) returns are allowed, as in the GooseLang model; only the upper bounds are checked"},
		ExpectProbes: []string{"woken_by_signal", "woken_by_broadcast", "timed_out", "aux_assertions"},
	},
	"C14": {
		ID: "C14", Title: "Filesystem operations are linearizable under concurrency",
		Driver: "./drivers/machdrv", ModFile: "go.mod",
		Rewrites: machRewrites(), Flavours: []string{"plain", "race"},
		Quick:    TierParams{Runs: 12000, RaceRuns: 2000, Budget: 5 * time.Minute},
		Thorough: TierParams{Budget: 15 * time.Minute},
		Level:    "exploration",
		Rule: "plans: 1-2 directories, a sequential setup (a stable file, sometimes a victim file), then 2-4 client tasks with 9-12 operations in total, biased toward collisions: Create/Create and Create/Link of one name, Append through a creator's descriptor while others Open/ReadAt the file, Delete of the victim by one client, AtomicCreate (one client per name; concurrent AtomicCreates belong to C13), List during changes, appends of up to 9000 bytes, a directory created by one client while the others run; in a fifth of the plans a name that one client creates while another deletes it and creates it again; the slice List returns is overwritten by the caller; appends of up to 70000 bytes; Mkdir of a directory that exists (MemFs); in a fifth of the plans a log file whose one descriptor, opened by the setup, all clients append through; in a third of the DirFs plans stalls move the simulated clock, and with it the time stamps the kernel puts on files and directories; MemFs in 2/3 of the plans, DirFs on the simulated kernel in 1/3 (getdents limited to 1-2 entries per call in half of those; DirFs.List is judged by the sandwich oracle). " +
			"Each plan runs under one seeded schedule with yields before every statement, at every lock operation and system call; after the clients join every touched name is read back. The whole history (invoke/return stamped with event sequence numbers) is checked with porcupine against the filesystem model (descriptors by handle), plus: descriptors open at the same time are distinct, no deadlock, and in the -race build no race report. " +
			"Non-trivial: two operations of different clients overlapped in time; distinct = distinct event-log fingerprints among those.",
		Components:   machComponents,
		Assumptions:  []string{"operations whose precondition could be broken by a concurrent client are generated only where both implementations agree on the outcome (Open of a missing name is refused by both; Link only from a never-deleted name; Delete of a name that is not there is refused by DirFs and a no-op in MemFs, and the model says so per implementation)", "with one getdents call per List DirFs.List is held to the model; with several (1-2 entries per call) it is judged by the sandwich oracle"},
		ExpectProbes: []string{"lock_contended"},
	},
	"C10": {
		ID: "C10", Title: "Concurrent disk operations are linearizable per block",
		Driver: "./drivers/machdrv", ModFile: "go.mod",
		Rewrites: machRewrites(), Flavours: []string{"plain", "race"},
		Quick:    TierParams{Runs: 24000, RaceRuns: 3000, Budget: 5 * time.Minute},
		Thorough: TierParams{Budget: 15 * time.Minute},
		Level:    "exploration",
		Rule: "plans: 2-4 client tasks x 1-5 ops (Read/ReadTo/Write/Size; written contents are unique ids, in a third of the plans a two-value alphabet plus zero, in a quarter unique ids laid out with zero stretches so that contents agree on a prefix or suffix) over 1-3 addresses of a 1-3 block (one plan in six: a 17-130 block disk, addresses a power of two apart, one client writing 34-70 blocks in a row while the others keep reading) MemDisk (2/3 of plans) or FileDisk on the simulated kernel (1/3), " +
			"each executed under one seeded schedule (uniform / sticky 1/2,1/8,1/32 / PCT d=1..3) with yields before every statement, at every lock operation, system call and in the middle of every block copy. " +
			"A run is non-trivial when at least two operations of different clients overlapped in time on one address and one of them was a write; distinct = distinct event-log fingerprints (FNV-64 over every scheduler event) among those.",
		Components:   machComponents,
		Assumptions:  []string{"sequentially consistent simulator: weak-memory effects are covered only through the race detector's happens-before check", "sync.RWMutex follows Go's algorithm (an announced writer blocks new readers; readers that queued behind it are admitted together when it unlocks)", "file disk: concurrent pwrite/pread atomicity is not assumed (split-pwrite buggify): a read overlapping a write may return any byte-wise mixture of the writes that can still be visible to it (a write is dead once another write began after it returned and returned before the read began)"},
		ExpectProbes: []string{"wlock_contended", "rlock_contended", "readers_overlap"},
	},
}
