package main

import (
	"encoding/json"
	"fmt"
	"hash"
	"os"
	"os/exec"
	"path/filepath"
	"strings"

	"verif/c03gen"
	"verif/rewrite"
)

// prepareC03 generates the batch of concurrent programs, translates it with
// the goose built from the working tree, and returns the rewrite that puts the
// instrumented Go side of the batch into the driver.
func prepareC03(b *built, overlay map[string]string, h hash.Hash) []RewriteSpec {
	repo := repoDir()
	mod := filepath.Join(b.work, "c03mod")
	pkg := filepath.Join(mod, "prog")
	if err := os.MkdirAll(pkg, 0755); err != nil {
		infra("%v", err)
	}
	gomod := fmt.Sprintf("module vscratch\n\ngo 1.22\n\nrequire github.com/goose-lang/goose v0.0.0\n\nreplace github.com/goose-lang/goose => %s\n", repo)
	os.WriteFile(filepath.Join(mod, "go.mod"), []byte(gomod), 0644)
	sum, _ := os.ReadFile(filepath.Join(repo, "go.sum"))
	os.WriteFile(filepath.Join(mod, "go.sum"), sum, 0644)
	batch := c03gen.Generate(b.genSeed, b.genN)
	os.WriteFile(filepath.Join(pkg, "prog.go"), []byte(batch.Source), 0644)
	regFile := filepath.Join(b.work, "gen", "registry.go")
	os.WriteFile(regFile, []byte(batch.Registry()), 0644)
	os.WriteFile(filepath.Join(pkg, "registry.go"), []byte(batch.Registry()), 0644)
	meta := filepath.Join(b.work, "c03-meta.json")
	mj, _ := json.Marshal(batch)
	os.WriteFile(meta, mj, 0644)
	// the translator under test, built from the working tree
	goose := filepath.Join(b.work, "goose")
	cmd := exec.Command("go", "build", "-o", goose, "./cmd/goose")
	cmd.Dir = repo
	cmd.Env = goEnv()
	if out, err := cmd.CombinedOutput(); err != nil {
		infra("building cmd/goose from %s failed: %v\n%s", repo, err, out)
	}
	// hash the translator sources into the tree id
	for _, f := range []string{"goose.go", "types.go", "idents.go", "errors.go", "interface.go", "internal/coq/coq.go", "cmd/goose/main.go", "machine/prims.go"} {
		c, _ := os.ReadFile(filepath.Join(repo, f))
		h.Write([]byte(f))
		h.Write(c)
	}
	vout := filepath.Join(b.work, "vout")
	tr := exec.Command(goose, "-out", vout, "-dir", mod, "./prog")
	tr.Env = goEnv()
	outb, err := tr.CombinedOutput()
	errFile := filepath.Join(b.work, "goose.err")
	if err != nil {
		os.WriteFile(errFile, []byte(fmt.Sprintf("goose exited with %v:\n%s", err, stripANSI(string(outb)))), 0644)
	}
	b.env = append(b.env, "VERIF_C03_META="+meta, "VERIF_C03_V="+filepath.Join(vout, "vscratch", "prog.v"), "VERIF_C03_GOOSE_ERR="+errFile)
	overlay[filepath.Join(verifDir, "drivers/c03drv/prog/registry.go")] = regFile
	// probe shapes: programs the shipped goose rejects; translated leniently
	ppkg := filepath.Join(mod, "probe")
	os.MkdirAll(ppkg, 0755)
	pb := c03gen.GenerateProbe(b.genSeed, 90)
	os.WriteFile(filepath.Join(ppkg, "probe.go"), []byte(pb.Source), 0644)
	os.WriteFile(filepath.Join(ppkg, "registry.go"), []byte(pb.RegistryFor("probe")), 0644)
	pregFile := filepath.Join(b.work, "gen", "probe_registry.go")
	os.WriteFile(pregFile, []byte(pb.RegistryFor("probe")), 0644)
	pmeta := filepath.Join(b.work, "c03-probe-meta.json")
	pj, _ := json.Marshal(pb)
	os.WriteFile(pmeta, pj, 0644)
	ptr := exec.Command(goose, "-ignore-errors", "-out", vout, "-dir", mod, "./probe")
	ptr.Env = goEnv()
	pout, _ := ptr.CombinedOutput()
	os.WriteFile(filepath.Join(b.work, "goose-probe.err"), []byte(stripANSI(string(pout))), 0644)
	b.env = append(b.env, "VERIF_C03_PROBE_META="+pmeta, "VERIF_C03_PROBE_V="+filepath.Join(vout, "vscratch", "probe.v"))
	overlay[filepath.Join(verifDir, "drivers/c03drv/probe/registry.go")] = pregFile
	rwOpt := rewrite.Options{Imports: map[string]string{"sync": "verif/simsync", "github.com/goose-lang/goose/machine": "verif/simmachine"}, Yields: true, GoStmt: true}
	return []RewriteSpec{{
		Dir: ppkg, Files: []string{"probe.go"}, Opt: rwOpt,
		OverlayAs: filepath.Join(verifDir, "drivers/c03drv/probe/probe.go"),
	}, {
		Dir: pkg, Files: []string{"prog.go"},
		Opt: rewrite.Options{Imports: map[string]string{"sync": "verif/simsync", "github.com/goose-lang/goose/machine": "verif/simmachine"},
			Yields: true, GoStmt: true},
		OverlayAs: filepath.Join(verifDir, "drivers/c03drv/prog/prog.go"),
	}}
}

func stripANSI(s string) string {
	var sb strings.Builder
	for i := 0; i < len(s); i++ {
		if s[i] == 0x1b && i+1 < len(s) && s[i+1] == '[' {
			for i < len(s) && s[i] != 'm' {
				i++
			}
			continue
		}
		sb.WriteByte(s[i])
	}
	return sb.String()
}
