// Package simruntime replaces "runtime" in the translator under test. It
// passes everything through except the two values a program can use to size
// its parallelism: GOMAXPROCS and NumCPU return the value the current plan
// chose (the property quantifies over GOMAXPROCS; under the baton scheduler the
// real value is irrelevant to the schedule, so only code that branches on it
// can tell), and Gosched is a scheduling point.
package simruntime

import (
	"os"
	"runtime"
	"strconv"

	"verif/simrt"
)

// Procs is what GOMAXPROCS(0) and NumCPU() report; set by the driver per plan
// (VERIF_SIM_PROCS in a simulated binary).
var Procs = func() int {
	if n, err := strconv.Atoi(os.Getenv("VERIF_SIM_PROCS")); err == nil && n > 0 {
		return n
	}
	return 8
}()

func GOMAXPROCS(n int) int {
	prev := Procs
	if n > 0 {
		Procs = n
	}
	return prev
}

func NumCPU() int { return Procs }

func Gosched() { simrt.Yield(-70) }

type (
	Frame              = runtime.Frame
	Frames             = runtime.Frames
	Func               = runtime.Func
	MemStats           = runtime.MemStats
	Error              = runtime.Error
	TypeAssertionError = runtime.TypeAssertionError
	StackRecord        = runtime.StackRecord
)

const (
	GOOS     = runtime.GOOS
	GOARCH   = runtime.GOARCH
	Compiler = runtime.Compiler
)

// Caller and Callers skip this package's frame.
func Caller(skip int) (pc uintptr, file string, line int, ok bool) { return runtime.Caller(skip + 1) }
func Callers(skip int, pc []uintptr) int                           { return runtime.Callers(skip+1, pc) }

var (
	CallersFrames  = runtime.CallersFrames
	FuncForPC      = runtime.FuncForPC
	Stack          = runtime.Stack
	GC             = runtime.GC
	KeepAlive      = runtime.KeepAlive
	SetFinalizer   = runtime.SetFinalizer
	NumGoroutine   = runtime.NumGoroutine
	ReadMemStats   = runtime.ReadMemStats
	Version        = runtime.Version
	GOROOT         = runtime.GOROOT
	Goexit         = runtime.Goexit
	LockOSThread   = runtime.LockOSThread
	UnlockOSThread = runtime.UnlockOSThread
	NumCgoCall     = runtime.NumCgoCall
	Breakpoint     = runtime.Breakpoint
)
