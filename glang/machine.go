package glang

import (
	"fmt"
	"runtime/debug"
	"strconv"
	"strings"
	"sync"

	"verif/simrt"
)

// SyncEvent is one synchronisation event of a run (see SPEC.md).
type SyncEvent struct {
	Thread string // spawn path: "0" root, "0.0" first Fork of root, "0.1" second, "0.0.0" ...
	Kind   string // "fork" | "acquire" | "release" | "wg-add" | "wg-wait" | "exit"
	Obj    int    // fork: index of the child among this thread's forks; acquire/release/wg-*: ordinal of the lock / waitgroup by first appearance in the trace (one numbering for both); exit: 0
	N      int64  // wg-add: the delta as a signed number (Done = -1); otherwise 0
}

func (e SyncEvent) String() string {
	return fmt.Sprintf("%s %s #%d n=%d", e.Thread, e.Kind, e.Obj, e.N)
}

type Options struct {
	Tape     *simrt.Tape // decides interleavings (nil = sequential: always keep running the current thread)
	Guide    []SyncEvent // when non-nil: guided run
	MaxSteps int         // scheduler step cap, 0 = 100000
	KeepLog  bool
}

type Result struct {
	Outcome     string // "returned" | "stuck" | "deadlock" | "step-limit" | "unknown-primitive" | "diverged"(guided only) | "assume-false"
	Value       string
	Detail      string
	Race        string
	Trace       []SyncEvent
	Steps       int64
	Fingerprint uint64
	Log         []string
}

// cell is one heap cell with FastTrack-style race metadata.
type cell struct {
	v      Value
	wt, rt int32  // thread of the last write / read epoch; rt == -2: reads are in rv
	wc, rc uint32 // their clocks
	rv     []uint32
}

type thread struct {
	m       *machine
	path    string
	comps   []int // path as numbers, for "lowest path first"
	idx     int   // creation index == simrt task id
	vc      []uint32
	forks   int
	depth   int
	fuel    int64
	blocked string
	done    bool
	locked  bool // this thread holds m.mu
}

func (th *thread) unlock() { th.locked = false; th.m.mu.Unlock() }
func (th *thread) lock()   { th.m.mu.Lock(); th.locked = true }

type lockObj struct {
	id, ord int
	held    bool
	vc      []uint32
}

type wgObj struct {
	id, ord int
	n       uint64
	vc      []uint32
}

type machine struct {
	// mu is held by whoever touches the machine: the running thread (released
	// around every scheduler request) or the scheduler goroutine inside pick and
	// the blocking handler. It is never contended, since one thread runs at a
	// time; it exists so that a -race build sees the hand-offs that simrt
	// deliberately hides from the race detector and does not report the
	// interpreter's own state.
	mu      sync.Mutex
	p       *Program
	cells   []cell // cells[0] is never used: address 0 is null
	threads []*thread
	trace   []SyncEvent
	nSync   int // locks and waitgroups that have appeared in the trace
	nObj    int // locks and waitgroups created
	race    string
	stopped *stop
	abort   bool
	rootVal Value
	disk    [][]byte
	clock   uint64

	yieldHint bool // the running thread is about to wait (condWait, Sleep): the sequential policy lets another thread run

	guide        []SyncEvent
	gpos         int
	gLock, gWg   map[int]int // guide ordinal -> ordinal in this run
	myLock, myWg map[int]int // and back
}

// ---- running -------------------------------------------------------------------

// Run calls function fn with args as the root thread "0" of a fresh machine.
func (p *Program) Run(fn string, args []Value, opt Options) Result {
	f := p.Funcs[fn]
	if f == nil {
		d := "no function " + fn + " in the program"
		if why, ok := p.Refused[fn]; ok {
			d = "definition " + fn + " was refused: " + why
		}
		return Result{Outcome: "unknown-primitive", Detail: d}
	}
	m := &machine{p: p, cells: make([]cell, 1, 64), guide: opt.Guide}
	if opt.MaxSteps == 0 {
		opt.MaxSteps = 100000
	}
	cfg := simrt.Config{Tape: opt.Tape, MaxSteps: opt.MaxSteps, KeepLog: opt.KeepLog}
	if opt.Tape == nil || opt.Guide != nil {
		cfg.Pick = m.pick
	}
	if opt.Guide != nil {
		m.gLock, m.gWg, m.myLock, m.myWg = map[int]int{}, map[int]int{}, map[int]int{}, map[int]int{}
	}
	root := m.newThread("0", []int{0}, nil)
	root.vc[0] = 1
	fuel := 200 * int64(opt.MaxSteps)
	root.fuel = fuel
	sim := simrt.New(cfg)
	res := sim.Run(func() {
		m.runThread(root, func() { m.rootVal = root.apply(f.val, args) })
	})
	out := Result{Race: m.race, Trace: m.trace, Steps: res.Events, Fingerprint: res.Fingerprint, Log: res.Log}
	switch {
	case m.stopped != nil:
		out.Outcome, out.Detail = m.stopped.kind, m.stopped.detail
	case res.Outcome == simrt.Completed:
		out.Outcome, out.Value = "returned", m.rootVal.String()
	case res.Outcome == simrt.Deadlock:
		var w []string
		for _, th := range m.threads {
			if !th.done {
				w = append(w, "thread "+th.path+" waits for "+th.blocked)
			}
		}
		out.Outcome, out.Detail = "deadlock", strings.Join(w, "; ")
		if m.gpos < len(m.guide) { // the guide expected progress here
			out.Outcome = "diverged"
			out.Detail = fmt.Sprintf("guide event %d (%v) cannot happen, no thread can run: %s", m.gpos, m.guide[m.gpos], out.Detail)
		}
	default:
		out.Outcome, out.Detail = "step-limit", res.Detail
	}
	return out
}

func (m *machine) newThread(path string, comps []int, parent *thread) *thread {
	th := &thread{m: m, path: path, comps: comps, idx: len(m.threads)}
	th.vc = make([]uint32, th.idx+1)
	if parent != nil {
		copy(th.vc, parent.vc)
		th.fuel = parent.fuel
	}
	m.threads = append(m.threads, th)
	return th
}

// runThread is the root of every simulated thread: it turns the panics that
// end a thread into the machine's outcome.
func (m *machine) runThread(th *thread, body func()) {
	th.lock()
	defer func() {
		r := recover()
		if simrt.IsAbort(r) {
			panic(r) // the scheduler is tearing the run down (deadlock, step cap); raised inside a request, mu not held
		}
		if !th.locked {
			th.lock()
		}
		defer th.unlock()
		th.done = true
		if r == nil {
			return
		}
		s, ok := r.(*stop)
		if !ok {
			s = &stop{"unknown-primitive", fmt.Sprintf("internal error in thread %s: %v\n%s", th.path, r, debug.Stack())}
		}
		m.fail(s)
	}()
	body()
	th.step(siteExit)
	m.event(th, "exit", 0, 0)
}

// fail records the first reason the run ends and makes every other thread stop
// at its next scheduling point.
func (m *machine) fail(s *stop) {
	if m.stopped == nil && s.kind != "aborted" {
		m.stopped = s
	}
	m.abort = true
}

// Scheduling-point sites (mixed into the simrt fingerprint with the address).
const (
	siteLoad = iota + 1
	siteStore
	siteSync
	siteExit
	siteExt
)

func (th *thread) check() {
	if th.m.abort {
		panic(abortedStop)
	}
}

// step is a scheduling point: the scheduler may run other threads here.
func (th *thread) step(site int) {
	th.unlock()
	simrt.Yield(site)
	th.lock()
	if th.m.abort {
		panic(abortedStop)
	}
}

// waitReq is the argument of the blocking scheduler request.
type waitReq struct {
	m         *machine
	desc      string
	ready     func() bool
	act       func()
	announced bool
}

// waitThenH runs on the scheduler goroutine: the thread stays blocked until
// ready() holds; act() then runs in the same scheduler step, so the check and
// its effect (taking a lock, observing a zero counter) are atomic.
//
//go:norace
func waitThenH(s *simrt.Sim, t *simrt.Task, r *simrt.Req) simrt.Status {
	w := r.X.(*waitReq)
	w.m.mu.Lock()
	defer w.m.mu.Unlock()
	if !w.m.abort && !w.ready() {
		if !w.announced {
			w.announced = true
			s.EvS(t, "wait", w.desc)
		}
		t.Ready = waitThenReady
		t.BlockedOn = w.desc
		return simrt.Block
	}
	if !w.m.abort {
		w.act()
	}
	s.EvS(t, "proceed", w.desc)
	return simrt.Done
}

//go:norace
func waitThenReady(s *simrt.Sim, t *simrt.Task) bool {
	w := t.ReqX().(*waitReq)
	w.m.mu.Lock()
	defer w.m.mu.Unlock()
	return w.m.abort || w.ready()
}

// waitThen blocks the thread until ready() holds and then performs act()
// atomically with that observation. Both run on the scheduler goroutine while
// no thread runs; they must not panic.
func (th *thread) waitThen(desc string, ready func() bool, act func()) {
	th.blocked = desc
	r := simrt.Req{X: &waitReq{m: th.m, desc: desc, ready: ready, act: act}}
	th.unlock()
	simrt.Call(waitThenH, &r)
	th.lock()
	th.blocked = ""
	if th.m.abort {
		panic(abortedStop)
	}
}

func always() bool { return true }

// syncStep performs a non-blocking synchronisation operation as one scheduler
// step whose effect happens when the request is posted (like waitThen's), so
// that there is a scheduling decision between it and the thread's next
// operation: `release;; acquire` lets a waiting thread in.
func (th *thread) syncStep(desc string, act func()) { th.waitThen(desc, always, act) }

func (m *machine) fork(parent *thread, body func(*thread)) {
	k := parent.forks
	parent.forks++
	child := m.newThread(parent.path+"."+strconv.Itoa(k), append(append([]int(nil), parent.comps...), k), parent)
	child.vc[child.idx] = 1
	parent.tickClock()
	m.event(parent, "fork", k, 0)
	parent.check()
	parent.unlock()
	simrt.GoNamed(child.path, func() { m.runThread(child, func() { body(child) }) })
	parent.lock()
	if m.abort {
		panic(abortedStop)
	}
}

// ---- scheduling policies ---------------------------------------------------------

func lessPath(a, b []int) bool {
	for i := 0; i < len(a) && i < len(b); i++ {
		if a[i] != b[i] {
			return a[i] < b[i]
		}
	}
	return len(a) < len(b)
}

// pick implements the guided policy while the guide lasts and the sequential
// policy (keep running the current thread, else lowest path first) otherwise.
// One concession to fairness: see yieldHint.
func (m *machine) pick(opts []*simrt.Task, curFirst bool) int {
	m.mu.Lock()
	defer m.mu.Unlock()
	if m.abort {
		return 0
	}
	if m.gpos < len(m.guide) {
		m.yieldHint = false
		g := m.guide[m.gpos]
		for i, t := range opts {
			if m.threads[t.ID].path == g.Thread {
				return i
			}
		}
		state := "has not been created"
		for _, th := range m.threads {
			if th.path == g.Thread {
				state = "is blocked on " + th.blocked
				if th.done {
					state = "has finished"
				}
			}
		}
		m.fail(&stop{"diverged", fmt.Sprintf("guide event %d (%v): thread %s %s", m.gpos, g, g.Thread, state)})
		return 0
	}
	hint := m.yieldHint
	m.yieldHint = false
	if curFirst && !hint {
		return 0
	}
	// lowest path first; a thread that has just started to wait on a condition
	// variable or to sleep lets the next thread (in path order, cyclically) run,
	// so that wait loops end on the sequential schedule too
	best, next := 0, -1
	for i, t := range opts {
		c := m.threads[t.ID].comps
		if lessPath(c, m.threads[opts[best].ID].comps) {
			best = i
		}
		if curFirst && i > 0 && lessPath(m.threads[opts[0].ID].comps, c) &&
			(next < 0 || lessPath(c, m.threads[opts[next].ID].comps)) {
			next = i
		}
	}
	if next >= 0 {
		return next
	}
	return best
}

// ---- synchronisation events -------------------------------------------------------

// event appends a synchronisation event; on a guided run it must be the next
// event of the guide, else the run has diverged (it then ends at the thread's
// next check of m.abort: event may run on the scheduler goroutine and so must
// not panic). Lock and waitgroup ordinals of the guide are matched to this
// run's by first appearance, so any consistent numbering is accepted.
func (m *machine) event(th *thread, kind string, obj int, n int64) {
	ev := SyncEvent{Thread: th.path, Kind: kind, Obj: obj, N: n}
	m.trace = append(m.trace, ev)
	if m.gpos >= len(m.guide) {
		return
	}
	g := m.guide[m.gpos]
	ok := g.Thread == ev.Thread && g.Kind == ev.Kind && g.N == ev.N
	if ok {
		switch kind {
		case "acquire", "release":
			ok = matchOrd(m.gLock, m.myLock, g.Obj, obj)
		case "wg-add", "wg-wait":
			ok = matchOrd(m.gWg, m.myWg, g.Obj, obj)
		default:
			ok = g.Obj == obj
		}
	}
	if !ok {
		m.fail(&stop{"diverged", fmt.Sprintf("guide event %d is (%v) but thread %s performed (%v)", m.gpos, g, th.path, ev)})
		return
	}
	m.gpos++
}

func matchOrd(fwd, back map[int]int, g, mine int) bool {
	a, okA := fwd[g]
	b, okB := back[mine]
	if !okA && !okB {
		fwd[g], back[mine] = mine, g
		return true
	}
	return okA && okB && a == mine && b == g
}

// ---- vector clocks and the race detector ---------------------------------------------

func (th *thread) tickClock() { th.vc[th.idx]++ }

func clockOf(vc []uint32, i int32) uint32 {
	if int(i) < len(vc) {
		return vc[i]
	}
	return 0
}

func join(dst, src []uint32) []uint32 {
	for len(dst) < len(src) {
		dst = append(dst, 0)
	}
	for i, c := range src {
		if c > dst[i] {
			dst[i] = c
		}
	}
	return dst
}

func (m *machine) reportRace(a uint64, th *thread, what string, other int32, otherWhat string) {
	if m.race == "" {
		m.race = fmt.Sprintf("cell %d: %s by thread %s is not ordered after %s by thread %s",
			a, what, th.path, otherWhat, m.threads[other].path)
	}
}

func (th *thread) cellAt(a uint64, what string) *cell {
	if a == 0 {
		th.stuck("%s of null", what)
	}
	if a >= uint64(len(th.m.cells)) {
		th.stuck("%s of invalid location %d", what, a)
	}
	return &th.m.cells[a]
}

func (th *thread) noteRead(a uint64, c *cell) {
	me := int32(th.idx)
	if c.wt >= 0 && c.wt != me && c.wc > clockOf(th.vc, c.wt) {
		th.m.reportRace(a, th, "load", c.wt, "a store")
	}
	now := th.vc[th.idx]
	switch {
	case c.rt == -2:
		for len(c.rv) <= th.idx {
			c.rv = append(c.rv, 0)
		}
		c.rv[th.idx] = now
	case c.rt < 0 || c.rt == me || c.rc <= clockOf(th.vc, c.rt):
		c.rt, c.rc = me, now
	default: // a concurrent second reader: keep both
		c.rv = make([]uint32, len(th.m.threads))
		c.rv[c.rt], c.rv[th.idx] = c.rc, now
		c.rt = -2
	}
}

func (th *thread) noteWrite(a uint64, c *cell) {
	me := int32(th.idx)
	if c.wt >= 0 && c.wt != me && c.wc > clockOf(th.vc, c.wt) {
		th.m.reportRace(a, th, "store", c.wt, "a store")
	}
	if c.rt == -2 {
		for i, rc := range c.rv {
			if int32(i) != me && rc > clockOf(th.vc, int32(i)) {
				th.m.reportRace(a, th, "store", int32(i), "a load")
			}
		}
	} else if c.rt >= 0 && c.rt != me && c.rc > clockOf(th.vc, c.rt) {
		th.m.reportRace(a, th, "store", c.rt, "a load")
	}
	c.wt, c.wc, c.rt, c.rv = me, th.vc[th.idx], -1, nil
}

// ---- heap ------------------------------------------------------------------------

// alloc creates fresh consecutive cells (not a scheduling point). Every
// allocation owns at least one cell so that distinct allocations have distinct addresses.
func (m *machine) alloc(th *thread, vals []Value) uint64 {
	base := uint64(len(m.cells))
	if len(vals) == 0 {
		vals = []Value{Unit}
	}
	me, now := int32(th.idx), th.vc[th.idx]
	for _, v := range vals {
		m.cells = append(m.cells, cell{v: v, wt: me, wc: now, rt: -1})
	}
	return base
}

func (th *thread) load(a uint64) Value {
	th.step(int(a)<<3 | siteLoad)
	c := th.cellAt(a, "load")
	th.noteRead(a, c)
	return c.v
}

func (th *thread) storeCell(a uint64, v Value) {
	th.step(int(a)<<3 | siteStore)
	c := th.cellAt(a, "store")
	th.noteWrite(a, c)
	c.v = v
}

// loadQuiet/storeQuiet access a cell as part of a larger step (no scheduling point).
func (th *thread) loadQuiet(a uint64) Value {
	c := th.cellAt(a, "load")
	th.noteRead(a, c)
	return c.v
}

func (th *thread) loadT(a uint64, t Type) Value {
	if t.kind == tyBase {
		return th.load(a)
	}
	if a == 0 {
		th.stuck("load of null")
	}
	return th.build(t, func() Value { v := th.load(a); a++; return v })
}

func (th *thread) storeT(a uint64, t Type, v Value) {
	if t.kind == tyBase {
		th.storeCell(a, v)
		return
	}
	if a == 0 {
		th.stuck("store to null")
	}
	for i, c := range th.flattenT(nil, t, v) {
		th.storeCell(a+uint64(i), c)
	}
}

// build assembles a value of (resolved) type t from consecutive cells.
func (th *thread) build(t Type, next func() Value) Value {
	switch t.kind {
	case tyStruct:
		fs := make([]Value, len(t.decl.Fields))
		for i, f := range t.decl.Fields {
			fs[i] = th.build(f.Type.res, next)
		}
		return Value{k: kStruct, x: fs}
	case tyProd:
		v := th.build(t.Elem[0].res, next)
		for _, c := range t.Elem[1:] {
			v = mkPair(v, th.build(c.res, next))
		}
		return v
	}
	return next()
}

// flattenT spreads v over the cells of (resolved) type t.
func (th *thread) flattenT(dst []Value, t Type, v Value) []Value {
	switch t.kind {
	case tyStruct:
		fs, ok := v.x.([]Value)
		if v.k != kStruct || !ok || len(fs) != len(t.decl.Fields) {
			th.stuck("a %s value %s used at type %s", v.k, v, t)
		}
		for i, f := range t.decl.Fields {
			dst = th.flattenT(dst, f.Type.res, fs[i])
		}
		return dst
	case tyProd:
		parts := make([]Value, len(t.Elem))
		for i := len(t.Elem) - 1; i > 0; i-- {
			if v.k != kPair {
				th.stuck("a %s value %s used at type %s", v.k, v, t)
			}
			pv := v.x.(*pairV)
			parts[i], v = pv.b, pv.a
		}
		parts[0] = v
		for i, c := range t.Elem {
			dst = th.flattenT(dst, c.res, parts[i])
		}
		return dst
	}
	return append(dst, v)
}

// zero is zero_val of a resolved type.
func zero(t Type) Value {
	switch t.kind {
	case tyStruct:
		fs := make([]Value, len(t.decl.Fields))
		for i, f := range t.decl.Fields {
			fs[i] = zero(f.Type.res)
		}
		return Value{k: kStruct, x: fs}
	case tyProd:
		v := zero(t.Elem[0].res)
		for _, c := range t.Elem[1:] {
			v = mkPair(v, zero(c.res))
		}
		return v
	}
	switch t.Name {
	case "uint64T":
		return U64(0)
	case "uint32T":
		return U32(0)
	case "byteT":
		return U8(0)
	case "boolT":
		return Bool(false)
	case "stringT":
		return Str("")
	case "unitT":
		return Unit
	case "slice.T", "disk.blockT":
		return nilSlice
	}
	return loc(0) // ptrT refT mapT funcT arrowT anyT interfaceT ProphIdT disk.Disk
}
