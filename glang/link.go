package glang

import "fmt"

// link resolves, once the whole file has been read, every bare identifier,
// type name and struct descriptor. Following Coq's scoping, a name refers to a
// definition of the file only if that definition comes EARLIER in the file;
// otherwise it is a primitive, otherwise unknown (an error when evaluated).
func (p *Program) link() {
	visible := func(node interface{}, name string) bool {
		i, ok := p.defIdx[name]
		return ok && i < p.declOf[node]
	}
	for _, t := range p.types {
		switch t.kind {
		case tyStruct:
			if d := p.Structs[t.Name]; d != nil && visible(t, t.Name) {
				t.decl = d
			} else {
				t.unknown = "struct descriptor " + t.Name
			}
		case tyNamed:
			if t.varIdx >= 0 {
				break
			}
			if tt := p.Types[t.Name]; tt != nil && visible(t, t.Name) {
				t.target = tt
			} else {
				t.unknown = "type " + t.Name
			}
		}
	}
	for _, g := range p.globals {
		if visible(g, g.name) {
			if f := p.Funcs[g.name]; f != nil {
				g.fn = f
				continue
			}
			if c, ok := p.Consts[g.name]; ok {
				g.cst = c
				continue
			}
			if t := p.Types[g.name]; t != nil {
				g.ty = t
				continue
			}
		}
		if g.prim = builtins[g.name]; g.prim == nil {
			g.note = " is neither defined in the file nor a known primitive"
			if _, later := p.defIdx[g.name]; later {
				g.note = " is used before its definition in the file"
			}
		}
	}
	for _, s := range p.lits {
		d := p.Structs[s.desc]
		if d == nil || !visible(s, s.desc) {
			s.err = "struct descriptor " + s.desc
			continue
		}
		s.decl = d
		s.order = make([]int, len(d.Fields))
		for i := range s.order {
			s.order[i] = -1
		}
		for i, f := range s.fields {
			j := d.field(f.name)
			if j < 0 {
				s.err = fmt.Sprintf("struct %s has no field %q", s.desc, f.name)
				s.decl, s.noField = nil, true
				break
			}
			s.order[j] = i
		}
	}
	for _, t := range p.types {
		p.shape(t, 0)
	}
	for _, s := range p.sops {
		var d *StructDecl
		if visible(s, s.desc) {
			d = p.Structs[s.desc]
		}
		s.prim = structPrim(s, p, d)
	}
}

// ---- type shapes ---------------------------------------------------------------

// shape computes, for a closed type, the base/struct/product type it stands for
// (t.res), its size in cells, or the reason it cannot be used (t.err).
func (p *Program) shape(t Type, depth int) {
	if t.sized {
		return
	}
	t.sized = true
	switch {
	case depth > 100:
		t.err = "cyclic type " + t.Name
	case t.unknown != "":
		t.err = t.unknown
	case t.kind == tyBase:
		t.res, t.size = t, 1
	case t.kind == tyStruct:
		if t.err = p.layout(t.decl, depth); t.err == "" {
			t.res, t.size = t, t.decl.size
		}
	case t.kind == tyProd:
		t.res = t
		for _, c := range t.Elem {
			p.shape(c, depth+1)
			switch {
			case c.open:
				t.open = true
			case c.err != "":
				t.err = c.err
			default:
				t.size += c.size
			}
		}
	case t.varIdx >= 0:
		t.open = true
	default:
		p.shape(t.target, depth+1)
		t.res, t.size, t.err, t.open = t.target.res, t.target.size, t.target.err, t.target.open
	}
}

// layout computes the field offsets of a struct descriptor.
func (p *Program) layout(d *StructDecl, depth int) string {
	switch d.state {
	case 2:
		return d.err
	case 1:
		return "struct " + d.Name + " contains itself"
	}
	d.state = 1
	d.offs = make([]int, len(d.Fields))
	for i, f := range d.Fields {
		d.offs[i] = d.size
		p.shape(f.Type, depth+1)
		switch {
		case f.Type.err != "":
			d.err = f.Type.err
		case f.Type.open:
			d.err = "struct " + d.Name + " has a field of generic type"
		}
		d.size += f.Type.size
	}
	d.state = 2
	return d.err
}

// shapeOf is the run-time view: the resolved type, instantiating type
// parameters from the environment when the type is open.
func (th *thread) shapeOf(t Type, e *env) Type {
	if t.err != "" {
		th.unknownPrim(t.err)
	}
	if !t.open {
		return t.res
	}
	if t.kind == tyNamed {
		v := e.at(t.varIdx)
		if v.k != kType {
			th.stuck("type parameter %s is bound to a %s value", t.Name, v.k)
		}
		return v.x.(Type)
	}
	r := &TypeDesc{kind: tyProd, sized: true}
	r.res = r
	for _, c := range t.Elem {
		cs := th.shapeOf(c, e)
		r.Elem = append(r.Elem, cs)
		r.size += cs.size
	}
	return r
}
