package glang

import "fmt"

// env is the run-time environment: one frame per named binder, innermost first;
// variables were resolved to de Bruijn indices by the parser.
type env struct {
	v  Value
	up *env
}

func (e *env) at(i int) Value {
	for ; i > 0; i-- {
		e = e.up
	}
	return e.v
}

// stop is the panic value that ends a thread: the machine is stuck, met an
// unknown primitive, assumed false, left the guide, ran out of fuel, or is
// being torn down because another thread did one of those.
type stop struct {
	kind   string // an Outcome, or "aborted"
	detail string
}

var abortedStop = &stop{kind: "aborted"}

func (th *thread) stuck(format string, args ...interface{}) {
	panic(&stop{"stuck", "thread " + th.path + ": " + fmt.Sprintf(format, args...)})
}

func (th *thread) unknownPrim(what string) {
	panic(&stop{"unknown-primitive", "thread " + th.path + ": " + what})
}

const maxDepth = 10000

// tick bounds pure computation, which the scheduler's step cap cannot see.
func (th *thread) tick() {
	th.fuel--
	if th.fuel < 0 {
		panic(&stop{"step-limit", "thread " + th.path + ": computation budget exhausted without finishing (pure loop or runaway recursion)"})
	}
}

// ---- leaves --------------------------------------------------------------------

func (n *lit) eval(th *thread, e *env) Value   { return n.v }
func (n *local) eval(th *thread, e *env) Value { return e.at(n.idx) }

func (n *global) eval(th *thread, e *env) Value {
	switch {
	case n.fn != nil:
		return n.fn.val
	case n.cst != nil:
		return n.cst.eval(th, nil)
	case n.ty != nil:
		return Value{k: kType, x: th.shapeOf(n.ty, nil)}
	case n.prim != nil:
		if n.prim.arity == 0 {
			return n.prim.fn(th, nil)
		}
		return n.prim.val
	}
	th.unknownPrim(n.name + n.note)
	return Unit
}

func (n *tyLit) eval(th *thread, e *env) Value { return Value{k: kType, x: th.shapeOf(n.t, e)} }

func (n *structOp) eval(th *thread, e *env) Value { return n.prim.val }

func (n *panicE) eval(th *thread, e *env) Value {
	th.stuck("Panic %q", n.msg)
	return Unit
}

func (n *lam) eval(th *thread, e *env) Value {
	return Value{k: kClosure, x: &closure{l: n.l, env: e}}
}

// ---- application ---------------------------------------------------------------

// GooseLang evaluates the argument of an application before the function, so
// `f a b c` evaluates c, b, a and then f.
func (n *app) eval(th *thread, e *env) Value {
	var buf [4]Value
	args := buf[:0]
	if len(n.args) > len(buf) {
		args = make([]Value, len(n.args))
	} else {
		args = buf[:len(n.args)]
	}
	for i := len(n.args) - 1; i >= 0; i-- {
		args[i] = n.args[i].eval(th, e)
	}
	// primitives applied to exactly their arity need no intermediate value
	switch h := n.fn.(type) {
	case *structOp:
		if h.prim.arity == len(args) {
			return h.prim.fn(th, args)
		}
	case *global:
		if h.prim != nil && h.prim.arity == len(args) {
			return h.prim.fn(th, args)
		}
	}
	return th.apply(n.fn.eval(th, e), args)
}

// apply applies f to args (curried: too few arguments give a partial
// application, surplus arguments are applied to the result). args is not retained.
func (th *thread) apply(f Value, args []Value) Value {
	for {
		switch f.k {
		case kClosure:
			c := f.x.(*closure)
			need := len(c.l.params) - len(c.bound)
			if len(args) < need {
				nb := append(append(make([]Value, 0, len(c.bound)+len(args)), c.bound...), args...)
				return Value{k: kClosure, x: &closure{c.l, c.env, nb}}
			}
			ev := c.env
			if c.l.name != "" {
				self := f
				if len(c.bound) > 0 {
					self = Value{k: kClosure, x: &closure{l: c.l, env: c.env}}
				}
				ev = &env{self, ev}
			}
			nb := len(c.bound)
			for i, name := range c.l.params {
				if name == "" {
					continue
				}
				if i < nb {
					ev = &env{c.bound[i], ev}
				} else {
					ev = &env{args[i-nb], ev}
				}
			}
			th.tick()
			if th.depth++; th.depth > maxDepth {
				panic(&stop{"step-limit", "thread " + th.path + ": call depth exceeds " + fmt.Sprint(maxDepth)})
			}
			r := c.l.body.eval(th, ev)
			th.depth--
			if args = args[need:]; len(args) == 0 {
				return r
			}
			f = r
		case kPrim:
			pa := f.x.(*papp)
			need := pa.b.arity - len(pa.args)
			if len(args) < need {
				na := append(append(make([]Value, 0, len(pa.args)+len(args)), pa.args...), args...)
				return Value{k: kPrim, x: &papp{pa.b, na}}
			}
			full := args[:need]
			if len(pa.args) > 0 {
				full = append(append(make([]Value, 0, pa.b.arity), pa.args...), args[:need]...)
			}
			r := pa.b.fn(th, full)
			if args = args[need:]; len(args) == 0 {
				return r
			}
			f = r
		default:
			th.stuck("application of a %s value %s", f.k, f)
		}
	}
}

// ---- operators -----------------------------------------------------------------

func (th *thread) boolOf(v Value, what string) bool {
	if v.k != kBool {
		th.stuck("%s is a %s value %s, not a boolean", what, v.k, v)
	}
	return v.n != 0
}

// Binary operators and pairs evaluate left to right; && and || are lazy.
func (n *binop) eval(th *thread, e *env) Value {
	l := n.l.eval(th, e)
	switch n.op {
	case "&&":
		if !th.boolOf(l, "left operand of &&") {
			return Bool(false)
		}
		return Bool(th.boolOf(n.r.eval(th, e), "right operand of &&"))
	case "||":
		if th.boolOf(l, "left operand of ||") {
			return Bool(true)
		}
		return Bool(th.boolOf(n.r.eval(th, e), "right operand of ||"))
	}
	return th.arith(n.op, l, n.r.eval(th, e))
}

func width(k kind) uint {
	switch k {
	case kU64:
		return 64
	case kU32:
		return 32
	case kU8:
		return 8
	}
	return 0
}

func (th *thread) arith(op string, l, r Value) Value {
	switch op {
	case "=", "≠":
		eq, ok := equal(l, r)
		if !ok {
			th.stuck("comparison of functions")
		}
		return Bool(eq == (op == "="))
	}
	if l.k == kStr && r.k == kStr && op == "+" {
		return Str(l.str() + r.str())
	}
	w := width(l.k)
	if w == 0 || l.k != r.k {
		th.stuck("operator %s applied to %s %s and %s %s", op, l.k, l, r.k, r)
	}
	a, b := l.n, r.n
	var x uint64
	switch op {
	case "<":
		return Bool(a < b)
	case ">":
		return Bool(a > b)
	case "≤":
		return Bool(a <= b)
	case "≥":
		return Bool(a >= b)
	case "+":
		x = a + b
	case "-":
		x = a - b
	case "*":
		x = a * b
	case "`quot`", "`rem`":
		if b == 0 {
			th.stuck("%s by zero", op)
		}
		if op == "`quot`" {
			x = a / b
		} else {
			x = a % b
		}
	case "`and`":
		x = a & b
	case "`or`":
		x = a | b
	case "`xor`":
		x = a ^ b
	case "≪":
		if b < uint64(w) {
			x = a << b
		}
	case "≫":
		if b < uint64(w) {
			x = a >> b
		}
	default:
		th.stuck("unknown operator %s", op)
	}
	if w < 64 {
		x &= 1<<w - 1
	}
	return Value{k: l.k, n: x}
}

func (n *not) eval(th *thread, e *env) Value {
	v := n.x.eval(th, e)
	if v.k == kBool {
		return Bool(v.n == 0)
	}
	w := width(v.k)
	if w == 0 {
		th.stuck("~ applied to a %s value %s", v.k, v)
	}
	x := ^v.n
	if w < 64 {
		x &= 1<<w - 1
	}
	return Value{k: v.k, n: x}
}

func (n *pair) eval(th *thread, e *env) Value {
	l := n.l.eval(th, e)
	return mkPair(l, n.r.eval(th, e))
}

// ---- memory --------------------------------------------------------------------

func (th *thread) locOf(v Value, what string) uint64 {
	if v.k != kLoc {
		th.stuck("%s: %s value %s is not a location", what, v.k, v)
	}
	return v.n
}

func (n *load) eval(th *thread, e *env) Value {
	t := th.shapeOf(n.t, e)
	return th.loadT(th.locOf(n.p.eval(th, e), "load"), t)
}

// `p <-[T] v` is an application store_ty T p v: v is evaluated first.
func (n *store) eval(th *thread, e *env) Value {
	t := th.shapeOf(n.t, e)
	v := n.v.eval(th, e)
	th.storeT(th.locOf(n.p.eval(th, e), "store"), t, v)
	return Unit
}

// ---- control -------------------------------------------------------------------

func (n *ifte) eval(th *thread, e *env) Value {
	if th.boolOf(n.c.eval(th, e), "if: condition") {
		return n.t.eval(th, e)
	}
	return n.f.eval(th, e)
}

// for: cond; post := body  — Continue is #true, Break is #false.
func (n *forLoop) eval(th *thread, e *env) Value {
	for {
		th.tick()
		if !th.boolOf(n.cond.eval(th, e), "for: condition") {
			return Unit
		}
		if !th.boolOf(n.body.eval(th, e), "for: body result (Continue/Break)") {
			return Unit
		}
		n.post.eval(th, e)
	}
}

func (n *block) eval(th *thread, e *env) Value {
	for i := range n.items {
		it := &n.items[i]
		v := it.e.eval(th, e)
		if it.p != nil {
			e = th.bind(it.p, v, e)
		}
	}
	return n.final.eval(th, e)
}

func (th *thread) bind(p *pat, v Value, e *env) *env {
	if p.l == nil {
		if p.name == "" {
			return e
		}
		return &env{v, e}
	}
	if v.k != kPair {
		th.stuck("let: pattern needs a pair, got %s value %s", v.k, v)
	}
	pv := v.x.(*pairV)
	return th.bind(p.r, pv.b, th.bind(p.l, pv.a, e))
}

func (n *fork) eval(th *thread, e *env) Value {
	th.m.fork(th, func(child *thread) { n.body.eval(child, e) })
	return Unit
}

func (n *forSlice) eval(th *thread, e *env) Value {
	t := th.shapeOf(n.t, e)
	s := n.s.eval(th, e)
	if s.k != kSlice {
		th.stuck("ForSlice over a %s value %s", s.k, s)
	}
	ln := s.x.(*sliceV).len
	for i := uint64(0); i < ln; i++ {
		th.tick()
		x := th.loadT(s.n+i*uint64(t.size), t)
		ev := e
		if n.key != "" {
			ev = &env{U64(i), ev}
		}
		if n.val != "" {
			ev = &env{x, ev}
		}
		n.body.eval(th, ev)
	}
	return Unit
}

// ---- struct literals -----------------------------------------------------------

func (n *structLit) eval(th *thread, e *env) Value {
	if n.decl == nil {
		if n.noField {
			th.stuck("%s", n.err)
		}
		th.unknownPrim(n.err)
	}
	t := th.m.p.structTy(n.decl)
	if t.err != "" {
		th.unknownPrim(t.err)
	}
	fs := make([]Value, len(n.decl.Fields))
	for i, j := range n.order {
		if j >= 0 {
			fs[i] = n.fields[j].e.eval(th, e)
		} else {
			fs[i] = zero(n.decl.Fields[i].Type.res)
		}
	}
	v := Value{k: kStruct, x: fs}
	if !n.alloc {
		return v
	}
	return loc(th.m.alloc(th, th.flattenT(nil, t, v)))
}
