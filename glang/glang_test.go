package glang

import (
	"fmt"
	"os"
	"reflect"
	"sort"
	"strings"
	"testing"

	"verif/simrt"
)

const examples = "/repo/internal/examples/"

var goldFiles = []string{
	"semantics/semantics.gold.v",
	"unittest/unittest.gold.v",
	"append_log/append_log.gold.v",
	"simpledb/simpledb.gold.v",
	"wal/wal.gold.v",
}

func parseFile(t testing.TB, rel string) *Program {
	t.Helper()
	text, err := os.ReadFile(examples + rel)
	if err != nil {
		t.Fatal(err)
	}
	p, err := Parse(string(text))
	if err != nil {
		t.Fatalf("%s: %v", rel, err)
	}
	return p
}

func sortedKeys(m map[string]string) []string {
	var ks []string
	for k := range m {
		ks = append(ks, k)
	}
	sort.Strings(ks)
	return ks
}

// ---- 1. every definition of the gold files is read or refused with a reason ------------

func TestParseGoldFiles(t *testing.T) {
	mustParse := map[string][]string{
		"unittest/unittest.gold.v": {"simpleSpawn", "loopSpawn", "useLocks", "useCondVar", "DoSomeLocking", "condvarWrapping"},
	}
	for _, rel := range goldFiles {
		p := parseFile(t, rel)
		text, _ := os.ReadFile(examples + rel)
		// an independent count of the definitions in the file
		want := 0
		for _, line := range strings.Split(string(text), "\n") {
			if strings.HasPrefix(line, "Definition ") || strings.HasPrefix(line, "Notation ") {
				want++
			}
		}
		if len(p.Order) != want {
			t.Errorf("%s: %d definitions in the text, %d seen by Parse", rel, want, len(p.Order))
		}
		for _, name := range p.Order {
			n := 0
			if _, ok := p.Funcs[name]; ok {
				n++
			}
			if _, ok := p.Consts[name]; ok {
				n++
			}
			if _, ok := p.Structs[name]; ok {
				n++
			}
			if _, ok := p.Types[name]; ok {
				n++
			}
			why, refused := p.Refused[name]
			switch {
			case refused && why == "":
				t.Errorf("%s: %s refused without a reason", rel, name)
			case !refused && n != 1:
				t.Errorf("%s: %s is in %d tables and not refused", rel, name, n)
			}
		}
		t.Logf("%s: %d definitions, refused: %v", rel, len(p.Order), sortedKeys(p.Refused))
		for _, k := range sortedKeys(p.Refused) {
			t.Logf("    %s: %s", k, p.Refused[k])
		}
		for _, name := range mustParse[rel] {
			if p.Funcs[name] == nil {
				t.Errorf("%s: %s must be accepted: %s", rel, name, p.Refused[name])
			}
		}
		if rel == "semantics/semantics.gold.v" {
			for _, name := range p.Order {
				if strings.HasPrefix(name, "test") && p.Funcs[name] == nil {
					t.Errorf("%s: %s must be accepted: %s", rel, name, p.Refused[name])
				}
			}
		}
	}
}

// ---- 2. the semantics tests are the oracle for the sequential constructs ------------------

// skip lists test* functions of semantics.gold.v that cannot return true for a
// reason outside SPEC.md. (Empty: all of them pass.)
var skip = map[string]string{}

func TestSemantics(t *testing.T) {
	p := parseFile(t, "semantics/semantics.gold.v")
	ran := 0
	for _, name := range p.Order {
		switch {
		case strings.HasPrefix(name, "test"):
			if why, ok := skip[name]; ok {
				t.Logf("skip %s: %s", name, why)
				continue
			}
			r := p.Run(name, []Value{Unit}, Options{})
			ran++
			if r.Outcome != "returned" || r.Value != "true" {
				t.Errorf("%s: outcome %s value %q detail %s", name, r.Outcome, r.Value, r.Detail)
			}
			if r.Race != "" {
				t.Errorf("%s: race in a sequential program: %s", name, r.Race)
			}
		case strings.HasPrefix(name, "failing_test"):
			r := p.Run(name, []Value{Unit}, Options{})
			if strings.Contains(r.Detail, "internal error") {
				t.Errorf("%s: %s", name, r.Detail)
			}
			t.Logf("%s: %s %s %s", name, r.Outcome, r.Value, r.Detail)
		}
	}
	if ran < 80 {
		t.Errorf("only %d test* functions ran", ran)
	}
	t.Logf("%d test* functions ran, %d skipped", ran, len(skip))
}

// Other definitions of the gold files, as a smoke test of the refusal rules.
func TestUnittestFunctions(t *testing.T) {
	p := parseFile(t, "unittest/unittest.gold.v")
	cases := []struct {
		fn      string
		args    []Value
		outcome string
		value   string
	}{
		{"useLocks", []Value{Unit}, "returned", "()"},
		{"useCondVar", []Value{Unit}, "returned", "()"},
		{"makeLock", []Value{Unit}, "returned", "()"},
		{"simpleSpawn", []Value{Unit}, "returned", "()"},
		{"condvarWrapping", []Value{Unit}, "stuck", ""}, // waits on a condvar whose lock is not held
		{"loopSpawn", []Value{Unit}, "step-limit", ""},  // ends in an infinite loop
		{"recur1", []Value{Unit}, "step-limit", ""},     // infinite recursion
		{"breakFromLoop", []Value{Unit}, "returned", "()"},
		{"sumSlice", []Value{nilSlice}, "returned", "0"},
		{"useGenericImplicitly", []Value{U64(7)}, "returned", "7"},
		{"useGenericImported", []Value{Unit}, "unknown-primitive", ""},
		{"getRandom", []Value{Unit}, "unknown-primitive", ""},
		{"PanicAtTheDisco", []Value{Unit}, "stuck", ""},
		{"UseAdd", []Value{Unit}, "returned", "9"},
		{"stringAppend", []Value{Str("a"), U64(3)}, "returned", `"prefix a 3"`},
		{"useInts", []Value{U64(1), U32(2)}, "returned", "(3, 5)"},
		{"ReplicatedDiskRead", []Value{U64(1)}, "returned", "{0}"},
		{"sleep", []Value{Unit}, "returned", "()"},
		{"setField", []Value{Unit}, "returned", "{0, {0, 0}, true}"},
	}
	for _, c := range cases {
		r := p.Run(c.fn, c.args, Options{MaxSteps: 5000})
		if r.Outcome != c.outcome || (c.outcome == "returned" && r.Value != c.value) {
			t.Errorf("%s: outcome %s value %q (want %s %q) detail %s", c.fn, r.Outcome, r.Value, c.outcome, c.value, r.Detail)
		}
	}
	// simpleSpawn on random schedules: race free, always returns
	for seed := uint64(1); seed <= 50; seed++ {
		r := p.Run("simpleSpawn", []Value{Unit}, Options{Tape: simrt.NewTape(simrt.NewRand(seed), simrt.Strategy{Kind: "uniform"})})
		if r.Outcome != "returned" || r.Race != "" {
			t.Fatalf("simpleSpawn seed %d: %s %s race=%q", seed, r.Outcome, r.Detail, r.Race)
		}
	}
}

func TestRefusals(t *testing.T) {
	p, err := Parse(`
Definition ok: val :=
  rec: "ok" <> :=
    #1.
Definition unbound: val :=
  rec: "unbound" <> :=
    "y" + #1.
Definition weird: val :=
  rec: "weird" <> :=
    match: #1 with end.
Definition arr: val :=
  rec: "arr" <> :=
    ref (zero_val (arrayT uint64T)).
Fixpoint f (n : nat) := n.
Definition after: val :=
  rec: "after" <> :=
    ok #().
`)
	if err != nil {
		t.Fatal(err)
	}
	for _, name := range []string{"unbound", "weird"} {
		if p.Refused[name] == "" || p.Funcs[name] != nil {
			t.Errorf("%s should be refused", name)
		}
	}
	if len(p.Refused) != 3 { // + the Fixpoint sentence
		t.Errorf("refused: %v", p.Refused)
	}
	if r := p.Run("after", []Value{Unit}, Options{}); r.Outcome != "returned" || r.Value != "1" {
		t.Errorf("after: %+v", r)
	}
	if r := p.Run("arr", []Value{Unit}, Options{}); r.Outcome != "unknown-primitive" || !strings.Contains(r.Detail, "arrayT") {
		t.Errorf("arr: %+v", r)
	}
	if r := p.Run("weird", []Value{Unit}, Options{}); r.Outcome != "unknown-primitive" {
		t.Errorf("weird: %+v", r)
	}
	if _, err := Parse("(* never closed"); err == nil {
		t.Errorf("unbalanced comment accepted")
	}
}

// ---- 3. concurrency -----------------------------------------------------------------

const concSrc = `
(* two threads increment a cell under a lock, joined by a waitgroup *)
Definition lockedIncr: val :=
  rec: "lockedIncr" <> :=
    let: "mu" := lock.new #() in
    let: "wg" := waitgroup.New #() in
    let: "x" := ref_to uint64T #0 in
    waitgroup.Add "wg" #2;;
    Fork (lock.acquire "mu";;
          "x" <-[uint64T] ((![uint64T] "x") + #1);;
          lock.release "mu";;
          waitgroup.Done "wg");;
    Fork (lock.acquire "mu";;
          "x" <-[uint64T] ((![uint64T] "x") + #1);;
          lock.release "mu";;
          waitgroup.Done "wg");;
    waitgroup.Wait "wg";;
    ![uint64T] "x".

Definition racyIncr: val :=
  rec: "racyIncr" <> :=
    let: "wg" := waitgroup.New #() in
    let: "x" := ref_to uint64T #0 in
    waitgroup.Add "wg" #2;;
    Fork ("x" <-[uint64T] ((![uint64T] "x") + #1);;
          waitgroup.Done "wg");;
    Fork ("x" <-[uint64T] ((![uint64T] "x") + #1);;
          waitgroup.Done "wg");;
    waitgroup.Wait "wg";;
    ![uint64T] "x".

Definition logAppend: val :=
  rec: "logAppend" "mu" "x" "id" :=
    lock.acquire "mu";;
    "x" <-[uint64T] (((![uint64T] "x") * #10) + "id");;
    lock.release "mu";;
    #().

(* schedule dependent: a positional log *)
Definition positional: val :=
  rec: "positional" <> :=
    let: "mu" := lock.new #() in
    let: "wg" := waitgroup.New #() in
    let: "x" := ref_to uint64T #0 in
    waitgroup.Add "wg" #1;;
    Fork (logAppend "mu" "x" #1;;
          waitgroup.Done "wg");;
    waitgroup.Add "wg" #1;;
    Fork (logAppend "mu" "x" #2;;
          waitgroup.Done "wg");;
    waitgroup.Wait "wg";;
    lock.acquire "mu";;
    let: "r" := ![uint64T] "x" in
    lock.release "mu";;
    "r".

Definition selfDeadlock: val :=
  rec: "selfDeadlock" <> :=
    let: "mu" := lock.new #() in
    lock.acquire "mu";;
    lock.acquire "mu";;
    #1.

Definition doubleRelease: val :=
  rec: "doubleRelease" <> :=
    let: "mu" := lock.new #() in
    lock.acquire "mu";;
    lock.release "mu";;
    lock.release "mu";;
    #1.

(* a thread gets stuck while another one is blocked: the run must still end *)
Definition stuckWhileBlocked: val :=
  rec: "stuckWhileBlocked" <> :=
    let: "mu" := lock.new #() in
    lock.acquire "mu";;
    Fork (lock.acquire "mu");;
    Panic "boom".

(* condition variable hand-off: the child sets a flag, the root waits for it *)
Definition condHandoff: val :=
  rec: "condHandoff" <> :=
    let: "mu" := lock.new #() in
    let: "c" := lock.newCond "mu" in
    let: "done" := ref_to boolT #false in
    let: "v" := ref_to uint64T #0 in
    Fork (lock.acquire "mu";;
          "v" <-[uint64T] #42;;
          "done" <-[boolT] #true;;
          lock.condSignal "c";;
          lock.release "mu");;
    lock.acquire "mu";;
    Skip;;
    (for: (λ: <>, (~ (![boolT] "done"))); (λ: <>, Skip) := λ: <>,
      lock.condWait "c";;
      Continue);;
    let: "r" := ![uint64T] "v" in
    lock.release "mu";;
    "r".
`

func concProg(t testing.TB) *Program {
	p, err := Parse(concSrc)
	if err != nil {
		t.Fatal(err)
	}
	if len(p.Refused) != 0 {
		t.Fatalf("refused: %v", p.Refused)
	}
	return p
}

func seeded(seed uint64) *simrt.Tape {
	return simrt.NewTape(simrt.NewRand(seed), simrt.Strategy{Kind: "uniform"})
}

func bothForked(r Result) bool {
	exits := 0
	for _, e := range r.Trace {
		if e.Kind == "exit" && e.Thread != "0" {
			exits++
		}
	}
	return exits == 2
}

func TestLockedIncrement(t *testing.T) {
	p := concProg(t)
	fps := map[uint64]bool{}
	for seed := uint64(1); seed <= 200; seed++ {
		r := p.Run("lockedIncr", []Value{Unit}, Options{Tape: seeded(seed)})
		if r.Outcome != "returned" || r.Value != "2" || r.Race != "" {
			t.Fatalf("seed %d: %s value %q race %q detail %s", seed, r.Outcome, r.Value, r.Race, r.Detail)
		}
		fps[r.Fingerprint] = true
	}
	if len(fps) < 20 {
		t.Errorf("only %d distinct schedules over 200 seeds", len(fps))
	}
	// the sequential policy works too
	if r := p.Run("lockedIncr", []Value{Unit}, Options{}); r.Outcome != "returned" || r.Value != "2" {
		t.Errorf("sequential: %+v", r)
	}
}

func TestRacyIncrement(t *testing.T) {
	p := concProg(t)
	lost := 0
	for seed := uint64(1); seed <= 200; seed++ {
		r := p.Run("racyIncr", []Value{Unit}, Options{Tape: seeded(seed)})
		if r.Outcome != "returned" {
			t.Fatalf("seed %d: %s %s", seed, r.Outcome, r.Detail)
		}
		if !bothForked(r) {
			t.Fatalf("seed %d: a thread did not run: %v", seed, r.Trace)
		}
		if r.Race == "" {
			t.Fatalf("seed %d: no race reported (value %s)", seed, r.Value)
		}
		switch r.Value {
		case "1":
			lost++
		case "2":
		default:
			t.Fatalf("seed %d: value %s", seed, r.Value)
		}
	}
	if lost == 0 {
		t.Errorf("no seed lost an update")
	}
	// even the sequential schedule, on which nothing goes wrong, reports the race
	if r := p.Run("racyIncr", []Value{Unit}, Options{}); r.Race == "" || r.Value != "2" {
		t.Errorf("sequential: %+v", r)
	}
	t.Logf("lost updates on %d/200 seeds", lost)
}

func TestPositionalLog(t *testing.T) {
	p := concProg(t)
	seen := map[string]int{}
	for seed := uint64(1); seed <= 200; seed++ {
		r := p.Run("positional", []Value{Unit}, Options{Tape: seeded(seed)})
		if r.Outcome != "returned" || r.Race != "" {
			t.Fatalf("seed %d: %s race %q detail %s", seed, r.Outcome, r.Race, r.Detail)
		}
		seen[r.Value]++
	}
	if seen["12"] == 0 || seen["21"] == 0 || len(seen) != 2 {
		t.Errorf("values seen: %v", seen)
	}
}

func TestDeadlockAndStuck(t *testing.T) {
	p := concProg(t)
	for _, tape := range []*simrt.Tape{nil, seeded(3)} {
		r := p.Run("selfDeadlock", []Value{Unit}, Options{Tape: tape})
		if r.Outcome != "deadlock" || !strings.Contains(r.Detail, "thread 0 waits for lock 0") {
			t.Errorf("selfDeadlock: %s %s", r.Outcome, r.Detail)
		}
		r = p.Run("doubleRelease", []Value{Unit}, Options{Tape: tape})
		if r.Outcome != "stuck" || !strings.Contains(r.Detail, "not held") {
			t.Errorf("doubleRelease: %s %s", r.Outcome, r.Detail)
		}
		r = p.Run("stuckWhileBlocked", []Value{Unit}, Options{Tape: tape})
		if r.Outcome != "stuck" || !strings.Contains(r.Detail, "boom") {
			t.Errorf("stuckWhileBlocked: %s %s", r.Outcome, r.Detail)
		}
	}
	// the sequential policy lets the other thread in when a thread waits on a condition variable
	if r := p.Run("condHandoff", []Value{Unit}, Options{}); r.Outcome != "returned" || r.Value != "42" {
		t.Errorf("condHandoff, sequential: %s %q %s", r.Outcome, r.Value, r.Detail)
	}
	for seed := uint64(1); seed <= 100; seed++ {
		r := p.Run("condHandoff", []Value{Unit}, Options{Tape: seeded(seed)})
		if r.Outcome != "returned" || r.Value != "42" || r.Race != "" {
			t.Fatalf("condHandoff seed %d: %s %q race %q %s", seed, r.Outcome, r.Value, r.Race, r.Detail)
		}
	}
}

func TestGuidedRuns(t *testing.T) {
	p := concProg(t)
	values := map[string]bool{}
	for seed := uint64(1); seed <= 60; seed++ {
		r := p.Run("positional", []Value{Unit}, Options{Tape: seeded(seed)})
		g := p.Run("positional", []Value{Unit}, Options{Guide: r.Trace})
		if g.Outcome != "returned" || g.Value != r.Value || !reflect.DeepEqual(g.Trace, r.Trace) {
			t.Fatalf("seed %d: guided run gave %s %q (%s), recorded run %q\nguide %v\ntrace %v", seed, g.Outcome, g.Value, g.Detail, r.Value, r.Trace, g.Trace)
		}
		values[g.Value] = true
		// a renumbered guide (locks and waitgroups jointly numbered from 7) is the same guide
		re := append([]SyncEvent(nil), r.Trace...)
		for i := range re {
			switch re[i].Kind {
			case "acquire", "release":
				re[i].Obj += 7
			case "wg-add", "wg-wait":
				re[i].Obj += 8
			}
		}
		if g := p.Run("positional", []Value{Unit}, Options{Guide: re}); g.Outcome != "returned" || g.Value != r.Value {
			t.Fatalf("seed %d: renumbered guide: %s %q %s", seed, g.Outcome, g.Value, g.Detail)
		}
		// a prefix of the trace is followed and then completed sequentially
		if g := p.Run("positional", []Value{Unit}, Options{Guide: r.Trace[:len(r.Trace)/2]}); g.Outcome != "returned" || g.Race != "" {
			t.Fatalf("seed %d: prefix guide: %s %s", seed, g.Outcome, g.Detail)
		}
	}
	if !values["12"] || !values["21"] {
		t.Errorf("guided runs reproduced only %v", values)
	}
	// swapping two events makes the guide unfollowable
	r := p.Run("positional", []Value{Unit}, Options{Tape: seeded(1)})
	swaps := 0
	for i := 0; i+1 < len(r.Trace); i++ {
		a, b := r.Trace[i], r.Trace[i+1]
		if a.Thread != b.Thread {
			continue // swapping independent events of different threads may be a legal schedule
		}
		bad := append([]SyncEvent(nil), r.Trace...)
		bad[i], bad[i+1] = b, a
		g := p.Run("positional", []Value{Unit}, Options{Guide: bad})
		if g.Outcome != "diverged" || g.Detail == "" {
			t.Errorf("swap at %d (%v <-> %v): %s %s", i, a, b, g.Outcome, g.Detail)
		}
		swaps++
	}
	if swaps == 0 {
		t.Errorf("no swap tried")
	}
	// a guide naming a thread that is blocked
	bad := []SyncEvent{{Thread: "0", Kind: "acquire"}, {Thread: "0", Kind: "acquire"}}
	if g := p.Run("selfDeadlock", []Value{Unit}, Options{Guide: bad}); g.Outcome != "diverged" || !strings.Contains(g.Detail, "thread 0 waits for lock 0") {
		t.Errorf("blocked guide: %s %s", g.Outcome, g.Detail)
	}
	// ... while other threads could run
	bad = []SyncEvent{{"0", "wg-add", 0, 2}, {"0", "fork", 0, 0}, {"0", "fork", 1, 0}, {"0.0", "acquire", 0, 0}, {"0.1", "acquire", 0, 0}}
	if g := p.Run("lockedIncr", []Value{Unit}, Options{Guide: bad}); g.Outcome != "diverged" || !strings.Contains(g.Detail, "thread 0.1 is blocked on lock 0") {
		t.Errorf("blocked guide 2: %s %s", g.Outcome, g.Detail)
	}
	// a guide with a wrong delta
	bad = []SyncEvent{{"0", "wg-add", 0, 3}}
	if g := p.Run("lockedIncr", []Value{Unit}, Options{Guide: bad}); g.Outcome != "diverged" || !strings.Contains(g.Detail, "performed") {
		t.Errorf("wrong delta guide: %s %s", g.Outcome, g.Detail)
	}
	// a guide naming a thread that does not exist yet
	bad = []SyncEvent{{Thread: "0.0", Kind: "acquire"}}
	if g := p.Run("lockedIncr", []Value{Unit}, Options{Guide: bad}); g.Outcome != "diverged" || !strings.Contains(g.Detail, "not been created") {
		t.Errorf("early guide: %s %s", g.Outcome, g.Detail)
	}
}

// ---- 4. determinism --------------------------------------------------------------------

func TestReplayDeterminism(t *testing.T) {
	p := concProg(t)
	for _, fn := range []string{"positional", "racyIncr", "lockedIncr", "condHandoff"} {
		for seed := uint64(1); seed <= 40; seed++ {
			tape := seeded(seed)
			r1 := p.Run(fn, []Value{Unit}, Options{Tape: tape, KeepLog: true})
			r2 := p.Run(fn, []Value{Unit}, Options{Tape: simrt.Replay(tape.Sched, tape.Aux), KeepLog: true})
			if r1.Fingerprint != r2.Fingerprint || r1.Value != r2.Value || r1.Outcome != r2.Outcome ||
				!reflect.DeepEqual(r1.Trace, r2.Trace) || !reflect.DeepEqual(r1.Log, r2.Log) || r1.Race != r2.Race || r1.Steps != r2.Steps {
				t.Fatalf("%s seed %d: replay differs:\n%+v\n%+v", fn, seed, r1, r2)
			}
			r3 := p.Run(fn, []Value{Unit}, Options{Tape: seeded(seed)})
			if r3.Fingerprint != r1.Fingerprint {
				t.Fatalf("%s seed %d: same seed, different fingerprint", fn, seed)
			}
		}
	}
}

func TestTraceShape(t *testing.T) {
	p := concProg(t)
	r := p.Run("lockedIncr", []Value{Unit}, Options{})
	var got []string
	for _, e := range r.Trace {
		got = append(got, fmt.Sprintf("%s:%s:%d:%d", e.Thread, e.Kind, e.Obj, e.N))
	}
	want := "0:wg-add:0:2 0:fork:0:0 0:fork:1:0 0.0:acquire:1:0 0.0:release:1:0 0.0:wg-add:0:-1 0.0:exit:0:0 " +
		"0.1:acquire:1:0 0.1:release:1:0 0.1:wg-add:0:-1 0.1:exit:0:0 0:wg-wait:0:0 0:exit:0:0"
	if strings.Join(got, " ") != want {
		t.Errorf("sequential trace:\n got %s\nwant %s", strings.Join(got, " "), want)
	}
}

func BenchmarkLockedIncr(b *testing.B) {
	p := concProg(b)
	for i := 0; i < b.N; i++ {
		p.Run("lockedIncr", []Value{Unit}, Options{Tape: seeded(uint64(i))})
	}
}

func BenchmarkSequentialEval(b *testing.B) {
	p := parseFile(b, "semantics/semantics.gold.v")
	for i := 0; i < b.N; i++ {
		p.Run("testReverseAssignOps64", []Value{Unit}, Options{})
	}
}

// ---- further sequential semantics, beyond what the gold files exercise ---------------------

const miscSrc = `
Definition P := struct.decl [
  "a" :: uint64T;
  "b" :: boolT
].

Definition Q := struct.decl [
  "p" :: struct.t P;
  "n" :: uint32T
].

Definition sliceOfStructs: val :=
  rec: "sliceOfStructs" <> :=
    let: "s" := ref (zero_val (slice.T (struct.t P))) in
    "s" <-[slice.T (struct.t P)] (SliceAppend (struct.t P) (![slice.T (struct.t P)] "s") (struct.mk P [
      "a" ::= #3;
      "b" ::= #true
    ]));;
    "s" <-[slice.T (struct.t P)] (SliceAppend (struct.t P) (![slice.T (struct.t P)] "s") (struct.mk P [
      "a" ::= #4
    ]));;
    "s" <-[slice.T (struct.t P)] (SliceAppend (struct.t P) (![slice.T (struct.t P)] "s") (struct.mk P [
      "a" ::= #5
    ]));;
    let: "sum" := ref_to uint64T #0 in
    ForSlice (struct.t P) "i" "x" (![slice.T (struct.t P)] "s")
      ("sum" <-[uint64T] (((![uint64T] "sum") + ("i" * #100)) + (struct.get P "a" "x")));;
    struct.storeF P "a" (SliceRef (struct.t P) (![slice.T (struct.t P)] "s") #1) #40;;
    (![uint64T] "sum", struct.get P "a" (SliceGet (struct.t P) (![slice.T (struct.t P)] "s") #1), slice.len (![slice.T (struct.t P)] "s")).

Definition nested: val :=
  rec: "nested" <> :=
    let: "q" := struct.new Q [
      "n" ::= #(U32 7)
    ] in
    struct.storeF P "b" (struct.fieldRef Q "p" "q") #true;;
    struct.storeF Q "n" "q" ((struct.loadF Q "n" "q") + #(U32 4294967295));;
    struct.load Q "q".

Definition wrap: val :=
  rec: "wrap" <> :=
    ((#(U8 200) + #(U8 100), #(U32 1) - #(U32 2)), (~ #(U8 1)), #1 ≪ #64, #(U32 1) ≪ #(U32 31), #7 ≫ #1).

Definition aliasing: val :=
  rec: "aliasing" <> :=
    let: "a" := NewSliceWithCap uint64T #1 #4 in
    let: "b" := SliceAppend uint64T "a" #10 in
    let: "c" := SliceAppend uint64T "a" #20 in
    let: "d" := SliceAppend uint64T (SliceAppend uint64T (SliceAppend uint64T "c" #1) #2) #3 in
    SliceSet uint64T "d" #0 #99;;
    (SliceGet uint64T "b" #1, SliceGet uint64T "a" #0, slice.len "d", SliceGet uint64T "d" #4).

Definition mapOps: val :=
  rec: "mapOps" <> :=
    let: "m" := NewMap stringT uint64T #() in
    MapInsert "m" #(str"b") #2;;
    MapInsert "m" #(str"a") #1;;
    MapInsert "m" #(str"c") #3;;
    MapInsert "m" #(str"b") #20;;
    MapDelete "m" #(str"c");;
    MapDelete "m" #(str"zz");;
    let: "acc" := ref_to stringT #(str"") in
    MapIter "m" (λ: "k" "v",
      "acc" <-[stringT] (((![stringT] "acc") + "k") + (uint64_to_string "v")));;
    let: ("v", "ok") := MapGet "m" #(str"q") in
    let: "n" := MapLen "m" in
    MapClear "m";;
    (![stringT] "acc", "v", "ok", "n", MapLen "m").

Definition nullMap: val :=
  rec: "nullMap" <> :=
    let: "m" := ref (zero_val (mapT uint64T)) in
    MapInsert (![mapT uint64T] "m") #1 #1.

Definition strings: val :=
  rec: "strings" <> :=
    let: "b" := StringToBytes #(str"hey") in
    SliceSet byteT "b" #0 #(U8 72);;
    (StringFromBytes "b", StringLength #(str"héy"), StringGet #(str"abc") #1).

Definition curry: val :=
  rec: "curry" "a" "b" "c" :=
    ("a" * #100) + (("b" * #10) + "c").

Definition partial: val :=
  rec: "partial" <> :=
    let: "f" := curry #1 in
    let: "g" := "f" #2 in
    let: "h" := (λ: "x" "y", "x" - "y") #10 in
    let: "sg" := struct.get P "a" in
    ("g" #3, "h" #4, "sg" (struct.mk P [
      "a" ::= #8
    ]), (SliceGet uint64T) (SliceSingleton #5) #0).

Definition fact: val :=
  rec: "fact" "n" :=
    (if: "n" = #0
    then #1
    else "n" * ("fact" ("n" - #1))).

Definition threeWay: val :=
  rec: "threeWay" <> :=
    let: (("a", "b"), "c") := (#1, #2, #3) in
    let: "t" := ref (#5, #true, #(str"x")) in
    let: (("x", "y"), "z") := ![(uint64T * boolT * stringT)%ht] "t" in
    ((("a" + "b") + "c") + "x", "y", "z").

Definition assertFalse: val :=
  rec: "assertFalse" <> :=
    control.impl.Assert (#1 = #2);;
    #().

Definition assumeFalse: val :=
  rec: "assumeFalse" <> :=
    control.impl.Assume (#1 = #2);;
    #().

Definition exits: val :=
  rec: "exits" <> :=
    control.impl.Exit #3;;
    #().

Definition oob: val :=
  rec: "oob" <> :=
    SliceGet uint64T (NewSlice uint64T #2) #2.

Definition nullLoad: val :=
  rec: "nullLoad" <> :=
    ![uint64T] #null.

Definition mixed: val :=
  rec: "mixed" <> :=
    #1 + #(U32 1).

Definition divZero: val :=
  rec: "divZero" "x" :=
    #1 ` + "`quot`" + ` "x".

Definition pureLoop: val :=
  rec: "pureLoop" <> :=
    Skip;;
    (for: (λ: <>, #true); (λ: <>, Skip) := λ: <>,
      Continue);;
    #().

Definition clock: val :=
  rec: "clock" <> :=
    let: "a" := time.TimeNow #() in
    time.Sleep #5;;
    let: "b" := time.TimeNow #() in
    "a" < "b".

(* a goroutine in a goroutine, and the loop variable captured by reference *)
Definition nestedForks: val :=
  rec: "nestedForks" <> :=
    let: "wg" := waitgroup.New #() in
    let: "mu" := lock.new #() in
    let: "sum" := ref_to uint64T #0 in
    waitgroup.Add "wg" #2;;
    Fork (Fork (lock.acquire "mu";;
                "sum" <-[uint64T] ((![uint64T] "sum") + #1);;
                lock.release "mu";;
                waitgroup.Done "wg");;
          lock.acquire "mu";;
          "sum" <-[uint64T] ((![uint64T] "sum") + #10);;
          lock.release "mu";;
          waitgroup.Done "wg");;
    waitgroup.Wait "wg";;
    ![uint64T] "sum".

Definition loopCapture: val :=
  rec: "loopCapture" <> :=
    let: "wg" := waitgroup.New #() in
    let: "out" := NewSlice uint64T #2 in
    let: "i" := ref_to uint64T #0 in
    (for: (λ: <>, (![uint64T] "i") < #2); (λ: <>, "i" <-[uint64T] ((![uint64T] "i") + #1)) := λ: <>,
      waitgroup.Add "wg" #1;;
      Fork (SliceSet uint64T "out" #0 (![uint64T] "i");;
            waitgroup.Done "wg");;
      Continue);;
    waitgroup.Wait "wg";;
    #().
`

func TestMiscSemantics(t *testing.T) {
	p, err := Parse(miscSrc)
	if err != nil {
		t.Fatal(err)
	}
	if len(p.Refused) != 0 {
		t.Fatalf("refused: %v", p.Refused)
	}
	cases := []struct {
		fn      string
		args    []Value
		outcome string
		want    string // value, or a fragment of Detail
	}{
		{"sliceOfStructs", []Value{Unit}, "returned", "((312, 40), 3)"},
		{"nested", []Value{Unit}, "returned", "{{0, true}, 6}"},
		{"wrap", []Value{Unit}, "returned", "(((((44, 4294967295), 254), 0), 2147483648), 3)"},
		{"aliasing", []Value{Unit}, "returned", "(((20, 0), 5), 3)"},
		{"mapOps", []Value{Unit}, "returned", `(((("a1b20", 0), false), 2), 0)`},
		{"nullMap", []Value{Unit}, "stuck", "null map"},
		{"strings", []Value{Unit}, "returned", `(("Hey", 4), 98)`},
		{"partial", []Value{Unit}, "returned", "(((123, 6), 8), 5)"},
		{"fact", []Value{U64(10)}, "returned", "3628800"},
		{"threeWay", []Value{Unit}, "returned", `((11, true), "x")`},
		{"assertFalse", []Value{Unit}, "stuck", "Assert"},
		{"assumeFalse", []Value{Unit}, "assume-false", "Assume"},
		{"exits", []Value{Unit}, "assume-false", "Exit 3"},
		{"oob", []Value{Unit}, "stuck", "out of bounds"},
		{"nullLoad", []Value{Unit}, "stuck", "null"},
		{"mixed", []Value{Unit}, "stuck", "u64 1 and u32 1"},
		{"divZero", []Value{U64(0)}, "stuck", "by zero"},
		{"divZero", []Value{U64(1)}, "returned", "1"},
		{"pureLoop", []Value{Unit}, "step-limit", "budget"},
		{"clock", []Value{Unit}, "returned", "true"},
		{"nestedForks", []Value{Unit}, "returned", "11"},
	}
	for _, c := range cases {
		r := p.Run(c.fn, c.args, Options{MaxSteps: 20000})
		got := r.Value
		if c.outcome != "returned" {
			got = r.Detail
		}
		if r.Outcome != c.outcome || (c.outcome == "returned" && got != c.want) || !strings.Contains(got, c.want) {
			t.Errorf("%s: outcome %s value %q detail %s; want %s %q", c.fn, r.Outcome, r.Value, r.Detail, c.outcome, c.want)
		}
	}
	for seed := uint64(1); seed <= 100; seed++ {
		r := p.Run("nestedForks", []Value{Unit}, Options{Tape: seeded(seed)})
		if r.Outcome != "returned" || r.Value != "11" || r.Race != "" {
			t.Fatalf("nestedForks seed %d: %+v", seed, r)
		}
		names := map[string]bool{}
		for _, e := range r.Trace {
			names[e.Thread] = true
		}
		if !names["0"] || !names["0.0"] || !names["0.0.0"] || len(names) != 3 {
			t.Fatalf("nestedForks threads: %v", names)
		}
		g := p.Run("nestedForks", []Value{Unit}, Options{Guide: r.Trace})
		if g.Outcome != "returned" || !reflect.DeepEqual(g.Trace, r.Trace) {
			t.Fatalf("nestedForks seed %d: guided %s %s", seed, g.Outcome, g.Detail)
		}
		// the loop variable is one shared cell: the goroutine's read races with the post statement
		r = p.Run("loopCapture", []Value{Unit}, Options{Tape: seeded(seed)})
		if r.Outcome != "returned" || r.Race == "" {
			t.Fatalf("loopCapture seed %d: %s race %q", seed, r.Outcome, r.Race)
		}
	}
}
