// Package glang reads the GooseLang notation that the goose translator prints
// (the .v files) and runs definitions of it on a simulated machine whose
// threads are verif/simrt tasks: one tape decides every interleaving, a run can
// be guided along a recorded order of synchronisation events, and a vector-clock
// detector reports unordered conflicting accesses to heap cells. See SPEC.md.
//
// It is not a Coq parser: what is outside the grammar of SPEC.md is refused
// (Program.Refused), and an identifier that is neither a definition of the file
// nor a primitive listed in SPEC.md ends a run with Outcome "unknown-primitive".
package glang

import "strings"

// ---- types -------------------------------------------------------------------

type tyKind uint8

const (
	tyBase   tyKind = iota // one cell: uint64T uint32T byteT boolT stringT unitT ptrT funcT anyT mapT refT arrowT ...
	tyStruct               // struct.t N: the fields' cells, consecutively
	tyProd                 // (a * b): a's cells then b's
	tyNamed                // a Definition N: ty / Notation N of the file, or a (T:ty) binder
)

// Type is a GooseLang type as far as the interpreter needs it: enough to know
// the zero value and how a value is spread over heap cells.
type Type = *TypeDesc

type TypeDesc struct {
	kind tyKind
	Name string // base: the printer's name (uint64T, slice.T, mapT, ...); struct/named: the identifier
	Elem []Type // slice.T / mapT / refT element, arrow components, product components

	// filled by link
	decl    *StructDecl // tyStruct
	target  Type        // tyNamed resolved through Program.Types
	varIdx  int         // tyNamed bound by a (T:ty) binder: de Bruijn index, else -1
	open    bool        // mentions a type variable: must be instantiated with the environment
	unknown string      // a name that is neither in the file nor built in
	res     Type        // closed types: the base/struct/product type this stands for
	size    int         // number of cells of res
	err     string      // why the type cannot be used (unknown name, cycle)
	sized   bool
	line    int
}

func (t *TypeDesc) String() string {
	switch t.kind {
	case tyStruct:
		return "struct.t " + t.Name
	case tyProd:
		parts := make([]string, len(t.Elem))
		for i, e := range t.Elem {
			parts[i] = e.String()
		}
		return "(" + strings.Join(parts, " * ") + ")"
	}
	if len(t.Elem) == 0 {
		return t.Name
	}
	parts := []string{t.Name}
	for _, e := range t.Elem {
		parts = append(parts, "("+e.String()+")")
	}
	return strings.Join(parts, " ")
}

// base type names the printer can emit and whose meaning is fixed here.
var baseTypes = map[string]bool{
	"uint64T": true, "uint32T": true, "byteT": true, "boolT": true, "stringT": true,
	"unitT": true, "ptrT": true, "funcT": true, "anyT": true, "ProphIdT": true,
	"interfaceT": true, "disk.blockT": true, "disk.Disk": true,
}

// type constructors taking arguments (all of them are one cell wide)
var tyHeads = map[string]bool{"slice.T": true, "mapT": true, "refT": true, "arrowT": true, "struct.t": true}

type FieldDecl struct {
	Name string
	Type Type
}

type StructDecl struct {
	Name   string
	Fields []FieldDecl

	offs  []int // cell offset of each field (link)
	size  int
	state int8 // 0 unsized, 1 in progress, 2 done
	err   string
}

func (d *StructDecl) field(name string) int {
	for i := range d.Fields {
		if d.Fields[i].Name == name {
			return i
		}
	}
	return -1
}

// Func is a `Definition N (T:ty)... : val := rec: "N" binders := body.`
type Func struct {
	Name     string
	TyParams []string // leading type binders, applied like ordinary arguments
	Params   []string // "" for <>
	Body     Expr
	lam      *lambda
	val      Value
}

// ---- expressions ---------------------------------------------------------------

// Expr is a node of the emitted notation. Evaluation is a method so that the
// hot path is one dynamic dispatch per node and no reflection.
type Expr interface {
	eval(th *thread, e *env) Value
}

type lit struct{ v Value }

// local is a quoted GooseLang variable, resolved to a de Bruijn index.
type local struct {
	name string
	idx  int
}

// global is a bare Gallina identifier: a definition of the file or a primitive.
type global struct {
	name string
	line int
	// link
	fn   *Func
	cst  Expr
	ty   Type
	prim *builtin
	note string // why the name is unknown, when it is
}

// tyLit is a type in argument position (NewSlice uint64T ..., zero_val (struct.t S)).
type tyLit struct{ t Type }

type app struct {
	fn   Expr
	args []Expr
}

type binop struct {
	op   string
	l, r Expr
}

type not struct{ x Expr }

type load struct {
	t Type
	p Expr
}

type store struct {
	t    Type
	p, v Expr
}

type pair struct{ l, r Expr }

type ifte struct{ c, t, f Expr }

type forLoop struct{ cond, post, body Expr }

// lambda is shared by λ:, rec: and (as a degenerate case) the ty binders of a Func.
type lambda struct {
	name   string   // rec name ("" for λ:); bound in the body before the parameters
	params []string // "" = <>
	body   Expr
}

type lam struct{ l *lambda }

type fork struct{ body Expr }

// pat is a let: pattern: a binder or a pair of patterns.
type pat struct {
	name string // leaf ("" = <>)
	l, r *pat
}

type blockItem struct {
	p *pat // nil: `e ;;`
	e Expr
}

// block is `item* final`; the scope of each let: is the rest of the block.
type block struct {
	items []blockItem
	final Expr
}

type fieldInit struct {
	name string
	e    Expr
}

// structLit is struct.mk S [...] (alloc=false) or struct.new S [...] (alloc=true).
type structLit struct {
	desc   string
	alloc  bool
	fields []fieldInit
	line   int
	// link
	decl    *StructDecl
	order   []int // for each descriptor field, index into fields or -1
	err     string
	noField bool // err is an unknown field (stuck) rather than an unknown descriptor
}

// structOp is struct.get/loadF/storeF/fieldRef S "f" and struct.alloc/load/store S:
// a primitive already applied to its descriptor (and field); the rest is curried.
type structOp struct {
	op, desc, field string
	line            int
	prim            *builtin // link
}

type forSlice struct {
	t        Type
	key, val string // "" = <>
	s, body  Expr
}

// panicE is `Panic "msg"`.
type panicE struct{ msg string }
