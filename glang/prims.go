package glang

import (
	"fmt"
	"sort"
	"strconv"
)

// builtin is a primitive of the GooseLang library. Primitives are curried like
// everything else; fn runs once all arity arguments are there (arity 0: a constant).
type builtin struct {
	name  string
	arity int
	fn    func(th *thread, a []Value) Value
	val   Value
}

var builtins = map[string]*builtin{}

func def(name string, arity int, fn func(th *thread, a []Value) Value) *builtin {
	b := &builtin{name: name, arity: arity, fn: fn}
	b.val = Value{k: kPrim, x: &papp{b: b}}
	if name != "" {
		builtins[name] = b
	}
	return b
}

// ---- argument helpers -----------------------------------------------------------

func (th *thread) u64Of(v Value, what string) uint64 {
	if v.k != kU64 {
		th.stuck("%s: expected a 64-bit integer, got %s value %s", what, v.k, v)
	}
	return v.n
}

func (th *thread) typeOf(v Value, what string) Type {
	if v.k != kType {
		th.stuck("%s: expected a type, got %s value %s", what, v.k, v)
	}
	return v.x.(Type)
}

func (th *thread) sliceOf(v Value, what string) (ptr, ln, cp uint64) {
	if v.k != kSlice {
		th.stuck("%s: expected a slice, got %s value %s", what, v.k, v)
	}
	s := v.x.(*sliceV)
	return v.n, s.len, s.cap
}

func (th *thread) objAt(v Value, k kind, what string) *cell {
	c := th.cellAt(th.locOf(v, what), what)
	if c.v.k != k {
		th.stuck("%s: location %d holds a %s, not a %s", what, v.n, c.v.k, k)
	}
	return c
}

func (th *thread) unitArg(v Value, what string) {
	if v.k != kUnit {
		th.stuck("%s applied to %s value %s instead of #()", what, v.k, v)
	}
}

// ---- locks, condition variables, waitgroups ----------------------------------------

// Locks and waitgroups are numbered together, in order of first appearance in
// the trace (as verif/simrt numbers the Go side's objects).
func (m *machine) lockOrd(l *lockObj) int {
	if l.ord < 0 {
		l.ord = m.nSync
		m.nSync++
	}
	return l.ord
}

func (m *machine) wgOrd(w *wgObj) int {
	if w.ord < 0 {
		w.ord = m.nSync
		m.nSync++
	}
	return w.ord
}

// acquire blocks until the lock is free and takes it in the same step.
func (th *thread) acquire(l *lockObj) {
	th.waitThen("lock "+strconv.Itoa(l.id), func() bool { return !l.held }, func() {
		l.held = true
		th.vc = join(th.vc, l.vc)
		th.m.event(th, "acquire", th.m.lockOrd(l), 0)
	})
}

func (th *thread) release(l *lockObj) {
	if !l.held {
		th.stuck("lock.release of lock %d, which is not held", l.id)
	}
	th.syncStep("unlock "+strconv.Itoa(l.id), func() {
		l.held = false
		l.vc = append(l.vc[:0], th.vc...)
		th.tickClock()
		th.m.event(th, "release", th.m.lockOrd(l), 0)
	})
}

func (th *thread) lockOf(v Value, what string) *lockObj {
	return th.objAt(v, kLock, what).v.x.(*lockObj)
}

func (th *thread) condWait(c Value, what string) Value {
	l := th.lockOf(loc(th.objAt(c, kCond, what).v.n), what)
	th.m.yieldHint = true
	th.release(l)
	th.acquire(l)
	return Unit
}

func (th *thread) wgAdd(v Value, delta uint64, what string) Value {
	w := th.objAt(v, kWg, what).v.x.(*wgObj)
	th.syncStep("waitgroup-add "+strconv.Itoa(w.id), func() {
		w.n += delta
		w.vc = join(w.vc, th.vc)
		th.tickClock()
		th.m.event(th, "wg-add", th.m.wgOrd(w), int64(delta))
	})
	return Unit
}

func init() {
	def("lock.new", 1, func(th *thread, a []Value) Value {
		th.unitArg(a[0], "lock.new")
		th.m.nObj++
		return loc(th.m.alloc(th, []Value{{k: kLock, x: &lockObj{id: th.m.nObj - 1, ord: -1}}}))
	})
	def("lock.acquire", 1, func(th *thread, a []Value) Value {
		th.acquire(th.lockOf(a[0], "lock.acquire"))
		return Unit
	})
	def("lock.release", 1, func(th *thread, a []Value) Value {
		th.release(th.lockOf(a[0], "lock.release"))
		return Unit
	})
	def("lock.newCond", 1, func(th *thread, a []Value) Value {
		th.lockOf(a[0], "lock.newCond")
		return loc(th.m.alloc(th, []Value{{k: kCond, n: a[0].n}}))
	})
	// Signal and Broadcast are no-ops in the model: waiters wake up spuriously.
	def("lock.condSignal", 1, func(th *thread, a []Value) Value { th.objAt(a[0], kCond, "lock.condSignal"); return Unit })
	def("lock.condBroadcast", 1, func(th *thread, a []Value) Value { th.objAt(a[0], kCond, "lock.condBroadcast"); return Unit })
	def("lock.condWait", 1, func(th *thread, a []Value) Value { return th.condWait(a[0], "lock.condWait") })
	def("lock.condWaitTimeout", 2, func(th *thread, a []Value) Value { return th.condWait(a[0], "lock.condWaitTimeout") })

	def("waitgroup.New", 1, func(th *thread, a []Value) Value {
		th.unitArg(a[0], "waitgroup.New")
		th.m.nObj++
		return loc(th.m.alloc(th, []Value{{k: kWg, x: &wgObj{id: th.m.nObj - 1, ord: -1}}}))
	})
	def("waitgroup.Add", 2, func(th *thread, a []Value) Value {
		return th.wgAdd(a[0], th.u64Of(a[1], "waitgroup.Add"), "waitgroup.Add")
	})
	def("waitgroup.Done", 1, func(th *thread, a []Value) Value { return th.wgAdd(a[0], ^uint64(0), "waitgroup.Done") })
	def("waitgroup.Wait", 1, func(th *thread, a []Value) Value {
		w := th.objAt(a[0], kWg, "waitgroup.Wait").v.x.(*wgObj)
		th.waitThen("waitgroup "+strconv.Itoa(w.id), func() bool { return w.n == 0 }, func() {
			th.vc = join(th.vc, w.vc)
			th.m.event(th, "wg-wait", th.m.wgOrd(w), 0)
		})
		return Unit
	})

	def("time.Sleep", 1, func(th *thread, a []Value) Value { th.m.yieldHint = true; th.step(siteExt); return Unit })
	def("time.TimeNow", 1, func(th *thread, a []Value) Value { th.m.clock++; return U64(th.m.clock) })

	// ---- constants and control ----
	def("Continue", 0, func(*thread, []Value) Value { return Bool(true) })
	def("Break", 0, func(*thread, []Value) Value { return Bool(false) })
	def("Skip", 0, func(*thread, []Value) Value { return Unit })
	def("Linearize", 0, func(*thread, []Value) Value { return Unit })
	def("null", 0, func(*thread, []Value) Value { return loc(0) })
	def("slice.nil", 0, func(*thread, []Value) Value { return nilSlice })
	def("control.impl.Assert", 1, func(th *thread, a []Value) Value {
		if !th.boolOf(a[0], "control.impl.Assert argument") {
			th.stuck("control.impl.Assert #false")
		}
		return Unit
	})
	def("control.impl.Assume", 1, func(th *thread, a []Value) Value {
		if !th.boolOf(a[0], "control.impl.Assume argument") {
			panic(&stop{"assume-false", "thread " + th.path + ": control.impl.Assume #false"})
		}
		return Unit
	})
	def("control.impl.Exit", 1, func(th *thread, a []Value) Value {
		panic(&stop{"assume-false", "thread " + th.path + ": control.impl.Exit " + a[0].String()})
	})
	def("NewProph", 1, func(*thread, []Value) Value { return Unit })
	def("ResolveProph", 2, func(*thread, []Value) Value { return Unit })

	// ---- references ----
	def("zero_val", 1, func(th *thread, a []Value) Value { return zero(th.typeOf(a[0], "zero_val")) })
	def("ref", 1, func(th *thread, a []Value) Value { return loc(th.m.alloc(th, flatten(nil, a[0]))) })
	def("ref_to", 2, func(th *thread, a []Value) Value {
		return loc(th.m.alloc(th, th.flattenT(nil, th.typeOf(a[0], "ref_to"), a[1])))
	})
	def("Fst", 1, func(th *thread, a []Value) Value {
		if a[0].k != kPair {
			th.stuck("Fst of a %s value %s", a[0].k, a[0])
		}
		return a[0].x.(*pairV).a
	})
	def("Snd", 1, func(th *thread, a []Value) Value {
		if a[0].k != kPair {
			th.stuck("Snd of a %s value %s", a[0].k, a[0])
		}
		return a[0].x.(*pairV).b
	})

	// ---- integers and strings ----
	conv := func(name string, k kind, mask uint64) {
		def(name, 1, func(th *thread, a []Value) Value {
			if width(a[0].k) == 0 {
				th.stuck("%s of a %s value %s", name, a[0].k, a[0])
			}
			return Value{k: k, n: a[0].n & mask}
		})
	}
	conv("to_u64", kU64, ^uint64(0))
	conv("to_u32", kU32, 1<<32-1)
	conv("to_u8", kU8, 1<<8-1)
	def("uint64_to_string", 1, func(th *thread, a []Value) Value {
		return Str(strconv.FormatUint(th.u64Of(a[0], "uint64_to_string"), 10))
	})
	strArg := func(th *thread, v Value, what string) string {
		if v.k != kStr {
			th.stuck("%s of a %s value %s", what, v.k, v)
		}
		return v.str()
	}
	def("StringLength", 1, func(th *thread, a []Value) Value { return U64(uint64(len(strArg(th, a[0], "StringLength")))) })
	def("StringGet", 2, func(th *thread, a []Value) Value {
		s, i := strArg(th, a[0], "StringGet"), th.u64Of(a[1], "StringGet")
		if i >= uint64(len(s)) {
			th.stuck("StringGet index %d out of range [0,%d)", i, len(s))
		}
		return U8(s[i])
	})
	def("StringToBytes", 1, func(th *thread, a []Value) Value {
		s := strArg(th, a[0], "StringToBytes")
		if len(s) == 0 {
			return nilSlice
		}
		cells := make([]Value, len(s))
		for i := range cells {
			cells[i] = U8(s[i])
		}
		return mkSlice(th.m.alloc(th, cells), uint64(len(s)), uint64(len(s)))
	})
	def("StringFromBytes", 1, func(th *thread, a []Value) Value {
		return Str(string(th.readBytes(a[0], "StringFromBytes", 0, true)))
	})
	def("UInt64Put", 2, func(th *thread, a []Value) Value {
		return th.putLE(a[0], th.u64Of(a[1], "UInt64Put"), 8, "UInt64Put")
	})
	def("UInt32Put", 2, func(th *thread, a []Value) Value {
		if a[1].k != kU32 {
			th.stuck("UInt32Put of a %s value %s", a[1].k, a[1])
		}
		return th.putLE(a[0], a[1].n, 4, "UInt32Put")
	})
	def("UInt64Get", 1, func(th *thread, a []Value) Value { return U64(th.getLE(a[0], 8, "UInt64Get")) })
	def("UInt32Get", 1, func(th *thread, a []Value) Value { return U32(uint32(th.getLE(a[0], 4, "UInt32Get"))) })

	// ---- slices ----
	def("NewSlice", 2, func(th *thread, a []Value) Value {
		n := th.u64Of(a[1], "NewSlice")
		return th.newSlice(th.typeOf(a[0], "NewSlice"), n, n)
	})
	def("NewSliceWithCap", 3, func(th *thread, a []Value) Value {
		n, c := th.u64Of(a[1], "NewSliceWithCap"), th.u64Of(a[2], "NewSliceWithCap")
		if c < n {
			th.stuck("NewSliceWithCap: capacity %d below length %d", c, n)
		}
		return th.newSlice(th.typeOf(a[0], "NewSliceWithCap"), n, c)
	})
	def("slice.len", 1, func(th *thread, a []Value) Value { _, n, _ := th.sliceOf(a[0], "slice.len"); return U64(n) })
	def("slice.cap", 1, func(th *thread, a []Value) Value { _, _, c := th.sliceOf(a[0], "slice.cap"); return U64(c) })
	elemAddr := func(th *thread, a []Value, what string) (uint64, Type) {
		t := th.typeOf(a[0], what)
		p, n, _ := th.sliceOf(a[1], what)
		i := th.u64Of(a[2], what)
		if i >= n {
			th.stuck("%s: index %d out of bounds (length %d)", what, i, n)
		}
		return p + i*uint64(t.size), t
	}
	def("SliceGet", 3, func(th *thread, a []Value) Value { p, t := elemAddr(th, a, "SliceGet"); return th.loadT(p, t) })
	def("SliceSet", 4, func(th *thread, a []Value) Value {
		p, t := elemAddr(th, a, "SliceSet")
		th.storeT(p, t, a[3])
		return Unit
	})
	def("SliceRef", 3, func(th *thread, a []Value) Value { p, _ := elemAddr(th, a, "SliceRef"); return loc(p) })
	def("SliceTake", 2, func(th *thread, a []Value) Value {
		p, _, c := th.sliceOf(a[0], "SliceTake")
		n := th.u64Of(a[1], "SliceTake")
		if n > c {
			th.stuck("SliceTake: %d exceeds capacity %d", n, c)
		}
		return mkSlice(p, n, c)
	})
	def("SliceSkip", 3, func(th *thread, a []Value) Value {
		t := th.typeOf(a[0], "SliceSkip")
		p, l, c := th.sliceOf(a[1], "SliceSkip")
		n := th.u64Of(a[2], "SliceSkip")
		if n > l {
			th.stuck("SliceSkip: %d exceeds length %d", n, l)
		}
		return mkSlice(p+n*uint64(t.size), l-n, c-n)
	})
	def("SliceSubslice", 4, func(th *thread, a []Value) Value {
		t := th.typeOf(a[0], "SliceSubslice")
		p, _, c := th.sliceOf(a[1], "SliceSubslice")
		lo, hi := th.u64Of(a[2], "SliceSubslice"), th.u64Of(a[3], "SliceSubslice")
		if lo > hi || hi > c {
			th.stuck("SliceSubslice: [%d:%d] out of bounds (capacity %d)", lo, hi, c)
		}
		return mkSlice(p+lo*uint64(t.size), hi-lo, c-lo)
	})
	def("SliceSingleton", 1, func(th *thread, a []Value) Value { return mkSlice(th.m.alloc(th, flatten(nil, a[0])), 1, 1) })
	def("SliceAppend", 3, func(th *thread, a []Value) Value {
		t := th.typeOf(a[0], "SliceAppend")
		return th.appendCells(t, a[1], th.flattenT(nil, t, a[2]), 1, "SliceAppend")
	})
	def("SliceAppendSlice", 3, func(th *thread, a []Value) Value {
		t := th.typeOf(a[0], "SliceAppendSlice")
		p, n, _ := th.sliceOf(a[2], "SliceAppendSlice")
		cells := make([]Value, n*uint64(t.size))
		for i := range cells {
			cells[i] = th.load(p + uint64(i))
		}
		return th.appendCells(t, a[1], cells, n, "SliceAppendSlice")
	})
	def("SliceCopy", 3, func(th *thread, a []Value) Value {
		t := th.typeOf(a[0], "SliceCopy")
		dp, dn, _ := th.sliceOf(a[1], "SliceCopy")
		sp, sn, _ := th.sliceOf(a[2], "SliceCopy")
		if sn < dn {
			dn = sn
		}
		for i := uint64(0); i < dn*uint64(t.size); i++ {
			th.storeCell(dp+i, th.load(sp+i))
		}
		return U64(dn)
	})

	// ---- maps: one cell holding an immutable sorted association list ----
	def("NewMap", 3, func(th *thread, a []Value) Value {
		th.typeOf(a[0], "NewMap")
		th.unitArg(a[2], "NewMap")
		return loc(th.m.alloc(th, []Value{{k: kMap, x: &mapV{def: zero(th.typeOf(a[1], "NewMap"))}}}))
	})
	def("MapGet", 2, func(th *thread, a []Value) Value {
		mv := th.mapLoad(a[0], "MapGet")
		if i, ok := mv.find(th, a[1]); ok {
			return mkPair(mv.vals[i], Bool(true))
		}
		return mkPair(mv.def, Bool(false))
	})
	def("MapInsert", 3, func(th *thread, a []Value) Value {
		mv := th.mapLoad(a[0], "MapInsert")
		i, ok := mv.find(th, a[1])
		nv := &mapV{def: mv.def}
		if ok {
			nv.keys = mv.keys
			nv.vals = append([]Value(nil), mv.vals...)
			nv.vals[i] = a[2]
		} else {
			nv.keys = append(append(append(make([]Value, 0, len(mv.keys)+1), mv.keys[:i]...), a[1]), mv.keys[i:]...)
			nv.vals = append(append(append(make([]Value, 0, len(mv.vals)+1), mv.vals[:i]...), a[2]), mv.vals[i:]...)
		}
		th.storeCell(a[0].n, Value{k: kMap, x: nv})
		return Unit
	})
	def("MapDelete", 2, func(th *thread, a []Value) Value {
		mv := th.mapLoad(a[0], "MapDelete")
		nv := mv
		if i, ok := mv.find(th, a[1]); ok {
			nv = &mapV{def: mv.def}
			nv.keys = append(append([]Value(nil), mv.keys[:i]...), mv.keys[i+1:]...)
			nv.vals = append(append([]Value(nil), mv.vals[:i]...), mv.vals[i+1:]...)
		}
		th.storeCell(a[0].n, Value{k: kMap, x: nv})
		return Unit
	})
	def("MapClear", 1, func(th *thread, a []Value) Value {
		mv := th.mapLoad(a[0], "MapClear")
		th.storeCell(a[0].n, Value{k: kMap, x: &mapV{def: mv.def}})
		return Unit
	})
	def("MapLen", 1, func(th *thread, a []Value) Value { return U64(uint64(len(th.mapLoad(a[0], "MapLen").keys))) })
	def("MapIter", 2, func(th *thread, a []Value) Value {
		mv := th.mapLoad(a[0], "MapIter") // a snapshot: sorted key order
		for i := range mv.keys {
			th.tick()
			th.apply(a[1], []Value{mv.keys[i], mv.vals[i]})
		}
		return Unit
	})

	// ---- disk: 1000 blocks of 4096 bytes per machine; each operation is one step ----
	def("disk.BlockSize", 0, func(*thread, []Value) Value { return U64(blockSize) })
	def("disk.Get", 1, func(*thread, []Value) Value { return Unit })
	def("disk.Size", 1, func(th *thread, a []Value) Value { th.step(siteExt); return U64(diskBlocks) })
	def("disk.Barrier", 1, func(th *thread, a []Value) Value { th.step(siteExt); return Unit })
	def("disk.Read", 1, func(th *thread, a []Value) Value {
		n := th.blockNo(a[0], "disk.Read")
		th.step(siteExt)
		cells := make([]Value, blockSize)
		for i := range cells {
			cells[i].k = kU8
			if b := th.m.disk[n]; b != nil {
				cells[i].n = uint64(b[i])
			}
		}
		return mkSlice(th.m.alloc(th, cells), blockSize, blockSize)
	})
	def("disk.Write", 2, func(th *thread, a []Value) Value {
		n := th.blockNo(a[0], "disk.Write")
		th.step(siteExt)
		th.m.disk[n] = th.readBytes(a[1], "disk.Write", blockSize, false)
		return Unit
	})
}

const (
	blockSize  = 4096
	diskBlocks = 1000
)

func (th *thread) blockNo(v Value, what string) uint64 {
	n := th.u64Of(v, what)
	if n >= diskBlocks {
		th.stuck("%s: block %d beyond the disk (%d blocks)", what, n, diskBlocks)
	}
	if th.m.disk == nil {
		th.m.disk = make([][]byte, diskBlocks)
	}
	return n
}

// readBytes reads a byte slice; want > 0 demands that exact length; steps says
// whether each cell access is its own scheduling point.
func (th *thread) readBytes(v Value, what string, want uint64, steps bool) []byte {
	p, n, _ := th.sliceOf(v, what)
	if want > 0 && n != want {
		th.stuck("%s: slice of length %d, need %d", what, n, want)
	}
	out := make([]byte, n)
	for i := range out {
		var c Value
		if steps {
			c = th.load(p + uint64(i))
		} else {
			c = th.loadQuiet(p + uint64(i))
		}
		if c.k != kU8 {
			th.stuck("%s: cell %d holds a %s, not a byte", what, p+uint64(i), c.k)
		}
		out[i] = byte(c.n)
	}
	return out
}

func (th *thread) putLE(s Value, x uint64, nbytes uint64, what string) Value {
	p, n, _ := th.sliceOf(s, what)
	if n < nbytes {
		th.stuck("%s: slice of length %d is too short", what, n)
	}
	for i := uint64(0); i < nbytes; i++ {
		th.storeCell(p+i, U8(uint8(x>>(8*i))))
	}
	return Unit
}

func (th *thread) getLE(s Value, nbytes uint64, what string) uint64 {
	p, n, _ := th.sliceOf(s, what)
	if n < nbytes {
		th.stuck("%s: slice of length %d is too short", what, n)
	}
	var x uint64
	for i := uint64(0); i < nbytes; i++ {
		c := th.load(p + i)
		if c.k != kU8 {
			th.stuck("%s: cell %d holds a %s, not a byte", what, p+i, c.k)
		}
		x |= c.n << (8 * i)
	}
	return x
}

// newSlice allocates cp elements of type t (NewSlice t #0 is slice.nil, as in Perennial).
func (th *thread) newSlice(t Type, ln, cp uint64) Value {
	if cp == 0 {
		return nilSlice
	}
	if cp*uint64(t.size) > 1<<24 {
		th.stuck("allocation of %d cells", cp*uint64(t.size))
	}
	z := flatten(nil, zero(t))
	cells := make([]Value, 0, int(cp)*len(z))
	for i := uint64(0); i < cp; i++ {
		cells = append(cells, z...)
	}
	return mkSlice(th.m.alloc(th, cells), ln, cp)
}

// appendCells appends n elements (given as cells) to slice s: in place when the
// capacity allows (Go's semantics), else into a fresh array of doubled capacity.
func (th *thread) appendCells(t Type, s Value, cells []Value, n uint64, what string) Value {
	p, ln, cp := th.sliceOf(s, what)
	esz := uint64(t.size)
	if ln+n <= cp {
		for i, c := range cells {
			th.storeCell(p+ln*esz+uint64(i), c)
		}
		return mkSlice(p, ln+n, cp)
	}
	ncap := 2 * cp
	if ncap < ln+n {
		ncap = ln + n
	}
	fresh := make([]Value, 0, ncap*esz)
	for i := uint64(0); i < ln*esz; i++ {
		fresh = append(fresh, th.load(p+i))
	}
	fresh = append(fresh, cells...)
	z := flatten(nil, zero(t))
	for uint64(len(fresh)) < ncap*esz {
		fresh = append(fresh, z...)
	}
	return mkSlice(th.m.alloc(th, fresh), ln+n, ncap)
}

// ---- maps --------------------------------------------------------------------------

type mapV struct {
	keys, vals []Value // sorted by key
	def        Value
}

func keyLess(a, b Value) bool {
	if a.k != b.k {
		return a.k < b.k
	}
	if a.k == kStr {
		return a.str() < b.str()
	}
	return a.n < b.n
}

// find returns the position of key k, or where it would be inserted.
func (mv *mapV) find(th *thread, k Value) (int, bool) {
	switch k.k {
	case kU64, kU32, kU8, kBool, kStr, kLoc:
	default:
		th.stuck("map key of kind %s", k.k)
	}
	i := sort.Search(len(mv.keys), func(i int) bool { return !keyLess(mv.keys[i], k) })
	if i < len(mv.keys) {
		eq, _ := equal(mv.keys[i], k)
		return i, eq
	}
	return i, false
}

func (th *thread) mapLoad(v Value, what string) *mapV {
	a := th.locOf(v, what)
	if a == 0 {
		th.stuck("%s on a null map", what)
	}
	c := th.load(a)
	if c.k != kMap {
		th.stuck("%s: location %d holds a %s, not a map", what, a, c.k)
	}
	return c.x.(*mapV)
}

// ---- struct primitives ----------------------------------------------------------------

func (p *Program) structTy(d *StructDecl) Type {
	if t := p.structTys[d]; t != nil {
		return t
	}
	t := &TypeDesc{kind: tyStruct, Name: d.Name, decl: d, varIdx: -1}
	p.shape(t, 0)
	p.structTys[d] = t
	return t
}

// structPrim builds the primitive for `struct.<op> S ["f"]`; d is nil when S is
// not a descriptor of the file.
func structPrim(s *structOp, p *Program, d *StructDecl) *builtin {
	name := s.op + " " + s.desc
	arity := 1
	if s.op == "struct.storeF" || s.op == "struct.store" {
		arity = 2
	}
	bad := func(kind, msg string) *builtin {
		return def("", arity, func(th *thread, a []Value) Value {
			panic(&stop{kind, "thread " + th.path + ": " + name + ": " + msg})
		})
	}
	if d == nil {
		return bad("unknown-primitive", "struct descriptor "+s.desc+" is not defined in the file")
	}
	st := p.structTy(d)
	if st.err != "" {
		return bad("unknown-primitive", st.err)
	}
	var ft Type
	var idx int
	var off uint64
	if s.op != "struct.alloc" && s.op != "struct.load" && s.op != "struct.store" {
		if idx = d.field(s.field); idx < 0 {
			return bad("stuck", fmt.Sprintf("no field %q", s.field))
		}
		ft, off = d.Fields[idx].Type.res, uint64(d.offs[idx])
		name += " " + strconv.Quote(s.field)
	}
	ptr := func(th *thread, v Value) uint64 {
		a := th.locOf(v, name)
		if a == 0 {
			th.stuck("%s of null", name)
		}
		return a
	}
	switch s.op {
	case "struct.get":
		return def("", 1, func(th *thread, a []Value) Value {
			fs, ok := a[0].x.([]Value)
			if a[0].k != kStruct || !ok || len(fs) != len(d.Fields) {
				th.stuck("%s of a %s value %s", name, a[0].k, a[0])
			}
			return fs[idx]
		})
	case "struct.loadF":
		return def("", 1, func(th *thread, a []Value) Value { return th.loadT(ptr(th, a[0])+off, ft) })
	case "struct.storeF":
		return def("", 2, func(th *thread, a []Value) Value { th.storeT(ptr(th, a[0])+off, ft, a[1]); return Unit })
	case "struct.fieldRef":
		return def("", 1, func(th *thread, a []Value) Value { return loc(ptr(th, a[0]) + off) })
	case "struct.alloc":
		return def("", 1, func(th *thread, a []Value) Value { return loc(th.m.alloc(th, th.flattenT(nil, st, a[0]))) })
	case "struct.load":
		return def("", 1, func(th *thread, a []Value) Value { return th.loadT(ptr(th, a[0]), st) })
	case "struct.store":
		return def("", 2, func(th *thread, a []Value) Value { th.storeT(ptr(th, a[0]), st, a[1]); return Unit })
	}
	return bad("unknown-primitive", "unknown struct operation")
}
