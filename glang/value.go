package glang

import (
	"strconv"
	"strings"
)

type kind uint8

const (
	kUnit kind = iota
	kBool
	kU64
	kU32
	kU8
	kStr
	kLoc // n = cell address, 0 = null
	kPair
	kStruct // x = []Value, fields in descriptor order
	kSlice  // n = address of the first cell, x = *sliceV
	kClosure
	kPrim // a primitive, possibly partially applied
	kType // a type passed as an argument
	// cell contents that programs only ever hold through a location
	kLock
	kCond
	kWg
	kMap
)

// Value is a GooseLang value. The zero Value is unit.
type Value struct {
	k kind
	n uint64
	x interface{}
}

type pairV struct{ a, b Value }

type sliceV struct{ len, cap uint64 }

type closure struct {
	l     *lambda
	env   *env
	bound []Value // arguments received so far (partial application)
}

type papp struct {
	b    *builtin
	args []Value
}

// Constructors for callers of Run.
var Unit = Value{}

func U64(n uint64) Value { return Value{k: kU64, n: n} }
func U32(n uint32) Value { return Value{k: kU32, n: uint64(n)} }
func U8(n uint8) Value   { return Value{k: kU8, n: uint64(n)} }
func Bool(b bool) Value {
	if b {
		return Value{k: kBool, n: 1}
	}
	return Value{k: kBool}
}
func Str(s string) Value { return Value{k: kStr, x: s} }

func loc(a uint64) Value           { return Value{k: kLoc, n: a} }
func mkPair(a, b Value) Value      { return Value{k: kPair, x: &pairV{a, b}} }
func mkSlice(p, l, c uint64) Value { return Value{k: kSlice, n: p, x: &sliceV{l, c}} }

var nilSlice = mkSlice(0, 0, 0)

func (v Value) str() string { s, _ := v.x.(string); return s }

// String is the canonical rendering used for Result.Value.
func (v Value) String() string {
	switch v.k {
	case kUnit:
		return "()"
	case kBool:
		if v.n != 0 {
			return "true"
		}
		return "false"
	case kU64, kU32, kU8:
		return strconv.FormatUint(v.n, 10)
	case kStr:
		return strconv.Quote(v.str())
	case kLoc:
		if v.n == 0 {
			return "null"
		}
		return "loc"
	case kPair:
		p := v.x.(*pairV)
		return "(" + p.a.String() + ", " + p.b.String() + ")"
	case kStruct:
		fs := v.x.([]Value)
		parts := make([]string, len(fs))
		for i, f := range fs {
			parts[i] = f.String()
		}
		return "{" + strings.Join(parts, ", ") + "}"
	case kSlice:
		s := v.x.(*sliceV)
		if v.n == 0 {
			return "slice.nil"
		}
		return "slice[" + strconv.FormatUint(s.len, 10) + "]"
	case kClosure, kPrim:
		return "fn"
	case kType:
		return v.x.(Type).String()
	}
	return "<internal>"
}

func (k kind) String() string {
	return [...]string{"unit", "bool", "u64", "u32", "u8", "string", "loc", "pair", "struct", "slice",
		"closure", "primitive", "type", "lock", "cond", "waitgroup", "map"}[k]
}

// equal is GooseLang's `=` on comparable values: structural, and values of
// different shapes are simply different. ok=false: a function was compared.
func equal(a, b Value) (eq, ok bool) {
	if a.k == kClosure || a.k == kPrim || b.k == kClosure || b.k == kPrim {
		return false, false
	}
	if a.k != b.k {
		return false, true
	}
	switch a.k {
	case kUnit:
		return true, true
	case kStr:
		return a.str() == b.str(), true
	case kPair:
		p, q := a.x.(*pairV), b.x.(*pairV)
		if eq, ok := equal(p.a, q.a); !ok || !eq {
			return false, ok
		}
		return equal(p.b, q.b)
	case kStruct:
		p, q := a.x.([]Value), b.x.([]Value)
		if len(p) != len(q) {
			return false, true
		}
		for i := range p {
			if eq, ok := equal(p[i], q[i]); !ok || !eq {
				return false, ok
			}
		}
		return true, true
	case kSlice:
		p, q := a.x.(*sliceV), b.x.(*sliceV)
		return a.n == b.n && p.len == q.len && p.cap == q.cap, true
	case kType:
		return a.x.(Type) == b.x.(Type), true
	}
	return a.n == b.n, true
}

// flatten appends the cells an untyped `ref v` spreads v over.
func flatten(dst []Value, v Value) []Value {
	switch v.k {
	case kPair:
		p := v.x.(*pairV)
		return flatten(flatten(dst, p.a), p.b)
	case kStruct:
		for _, f := range v.x.([]Value) {
			dst = flatten(dst, f)
		}
		return dst
	}
	return append(dst, v)
}
