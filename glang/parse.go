package glang

import (
	"fmt"
	"strconv"
)

// Program is a parsed .v file.
type Program struct {
	Funcs   map[string]*Func       // Definition N ... : val := rec: ...
	Consts  map[string]Expr        // Definition N : expr := e.
	Structs map[string]*StructDecl // Definition N := struct.decl [...].
	Types   map[string]Type        // Definition N : ty := t.  /  Notation N := t (only parsing).
	Order   []string               // definition names in file order
	Refused map[string]string      // name -> why it is outside the grammar

	defIdx map[string]int // position in Order of every accepted definition
	// nodes that need linking once the whole file has been read
	globals   []*global
	types     []Type
	lits      []*structLit
	sops      []*structOp
	declOf    map[interface{}]int // node -> index of the definition it occurs in
	structTys map[*StructDecl]Type
	curDecl   int
}

type parseErr struct{ msg string }

type parser struct {
	prog  *Program
	toks  []token
	pos   int
	scope []string // innermost last; quoted variables are stored with a leading '"', ty binders bare
}

func (p *parser) fail(format string, args ...interface{}) {
	t := p.peek()
	panic(parseErr{fmt.Sprintf("line %d near %s: ", t.line, t) + fmt.Sprintf(format, args...)})
}

func (p *parser) peek() token { return p.toks[p.pos] }
func (p *parser) next() token {
	t := p.toks[p.pos]
	if t.kind != tEOF {
		p.pos++
	}
	return t
}
func (p *parser) isP(s string) bool { t := p.peek(); return t.kind == tPunct && t.text == s }
func (p *parser) isI(s string) bool { t := p.peek(); return t.kind == tIdent && t.text == s }
func (p *parser) eatP(s string) bool {
	if p.isP(s) {
		p.pos++
		return true
	}
	return false
}
func (p *parser) wantP(s string) {
	if !p.eatP(s) {
		p.fail("expected %q", s)
	}
}
func (p *parser) wantI(s string) {
	if !p.isI(s) {
		p.fail("expected %q", s)
	}
	p.pos++
}
func (p *parser) ident() string {
	t := p.peek()
	if t.kind != tIdent {
		p.fail("expected an identifier")
	}
	p.pos++
	return t.text
}
func (p *parser) str() string {
	t := p.peek()
	if t.kind != tStr {
		p.fail("expected a string")
	}
	p.pos++
	return t.text
}

// binder is a quoted name or <>; "" stands for <>.
func (p *parser) binder() string {
	if p.eatP("<>") {
		return ""
	}
	return p.str()
}
func (p *parser) isBinder() bool { return p.isP("<>") || p.peek().kind == tStr }

func (p *parser) push(quoted string) {
	if quoted != "" {
		p.scope = append(p.scope, `"`+quoted)
	}
}
func (p *parser) lookup(key string) int {
	for i := len(p.scope) - 1; i >= 0; i-- {
		if p.scope[i] == key {
			return len(p.scope) - 1 - i
		}
	}
	return -1
}

// ---- file level ----------------------------------------------------------------

var skipSentences = map[string]bool{"From": true, "Section": true, "Context": true, "Local": true,
	"Set": true, "Hint": true, "Existing": true, "End": true, "Proof": true}

// Parse reads a whole .v file.
func Parse(text string) (*Program, error) {
	toks, err := lex(text)
	if err != nil {
		return nil, err
	}
	prog := &Program{Funcs: map[string]*Func{}, Consts: map[string]Expr{}, Structs: map[string]*StructDecl{},
		Types: map[string]Type{}, Refused: map[string]string{}, defIdx: map[string]int{}, declOf: map[interface{}]int{},
		structTys: map[*StructDecl]Type{}}
	pos := 0
	// end of the sentence starting at i: index of its terminating '.'
	sentenceEnd := func(i int) int {
		for toks[i].kind != tDot && toks[i].kind != tEOF {
			i++
		}
		return i
	}
	for toks[pos].kind != tEOF {
		t := toks[pos]
		end := sentenceEnd(pos)
		if toks[end].kind == tEOF {
			return nil, fmt.Errorf("line %d: sentence starting with %s is not terminated", t.line, t)
		}
		switch {
		case t.kind == tIdent && (t.text == "Definition" || t.text == "Notation"):
			name := fmt.Sprintf("@line %d", t.line)
			if toks[pos+1].kind == tIdent {
				name = toks[pos+1].text
			}
			prog.Order = append(prog.Order, name)
			prog.curDecl = len(prog.Order) - 1
			sub := append(append([]token(nil), toks[pos:end]...), token{tEOF, "", toks[end].line})
			if why := prog.parseDecl(sub, name); why != "" {
				if old, dup := prog.Refused[name]; dup {
					why = old + "; " + why
				}
				prog.Refused[name] = why
			}
		case t.kind == tIdent && t.text == "Theorem":
			for !(toks[end-1].kind == tIdent && toks[end-1].text == "Qed") {
				end = sentenceEnd(end + 1)
				if toks[end].kind == tEOF {
					return nil, fmt.Errorf("line %d: Theorem without Qed", t.line)
				}
			}
		case t.kind == tIdent && skipSentences[t.text]:
		default:
			prog.Refused[fmt.Sprintf("@line %d: %s", t.line, t)] = "unknown vernacular sentence (skipped)"
		}
		pos = end + 1
	}
	prog.link()
	return prog, nil
}

// parseDecl parses one Definition/Notation; the result is registered in the
// program, or the reason for refusing it is returned.
func (prog *Program) parseDecl(toks []token, name string) (why string) {
	p := &parser{prog: prog, toks: toks}
	defer func() {
		if r := recover(); r != nil {
			pe, ok := r.(parseErr)
			if !ok {
				panic(r)
			}
			why = "outside grammar: " + pe.msg
		}
	}()
	if _, dup := prog.defIdx[name]; dup {
		return "duplicate definition"
	}
	done := func() {
		if p.peek().kind != tEOF {
			p.fail("unexpected text after the definition")
		}
		prog.defIdx[name] = prog.curDecl
	}
	if p.ident() == "Notation" {
		p.ident()
		p.wantP(":=")
		t := p.tyAtom()
		p.wantP("(")
		p.wantI("only")
		p.wantI("parsing")
		p.wantP(")")
		done()
		prog.Types[name] = t
		return ""
	}
	p.ident()
	if p.eatP(":=") {
		p.wantI("struct.decl")
		d := &StructDecl{Name: name}
		p.wantP("[")
		for !p.isP("]") {
			f := p.str()
			p.wantP("::")
			d.Fields = append(d.Fields, FieldDecl{f, p.ty()})
			if !p.eatP(";") && !p.isP("]") {
				p.fail("expected ';' or ']' in struct.decl")
			}
		}
		p.wantP("]")
		done()
		prog.Structs[name] = d
		return ""
	}
	var tyParams []string
	for p.eatP("(") {
		tv := p.ident()
		p.wantP(":")
		p.wantI("ty")
		p.wantP(")")
		tyParams = append(tyParams, tv)
	}
	p.wantP(":")
	switch sort := p.ident(); {
	case sort == "ty" && tyParams == nil:
		p.wantP(":=")
		t := p.ty()
		done()
		prog.Types[name] = t
	case sort == "expr" && tyParams == nil:
		p.wantP(":=")
		e := p.expr()
		done()
		prog.Consts[name] = e
	case sort == "val":
		p.wantP(":=")
		p.wantP("rec:")
		f := &Func{Name: name, TyParams: tyParams}
		recName := p.str()
		for p.isBinder() {
			f.Params = append(f.Params, p.binder())
		}
		if len(f.Params) == 0 {
			p.fail("rec: without binders")
		}
		p.wantP(":=")
		p.scope = append(p.scope, tyParams...)
		p.push(recName)
		for _, b := range f.Params {
			p.push(b)
		}
		f.Body = p.block()
		done()
		// type binders are leading parameters; the rec name is bound after them
		inner := &lambda{name: recName, params: f.Params, body: f.Body}
		if len(tyParams) > 0 {
			f.lam = &lambda{params: tyParams, body: &lam{inner}}
		} else {
			f.lam = inner
		}
		f.val = Value{k: kClosure, x: &closure{l: f.lam}}
		prog.Funcs[name] = f
	default:
		p.fail("definition of sort %q", sort)
	}
	return ""
}

// ---- types -------------------------------------------------------------------

func (p *parser) newType(t *TypeDesc) Type {
	t.varIdx = -1
	t.line = p.peek().line
	p.prog.types = append(p.prog.types, t)
	p.prog.declOf[t] = p.prog.curDecl
	return t
}

func (p *parser) namedType(name string) Type {
	if baseTypes[name] {
		return p.newType(&TypeDesc{kind: tyBase, Name: name})
	}
	t := p.newType(&TypeDesc{kind: tyNamed, Name: name})
	if i := p.lookup(name); i >= 0 {
		t.varIdx, t.open = i, true
	}
	return t
}

func (p *parser) startsTyAtom() bool {
	t := p.peek()
	return (t.kind == tIdent && !reserved[t.text]) || (t.kind == tPunct && t.text == "(")
}

// ty is a type, possibly a constructor application without parentheses.
func (p *parser) ty() Type {
	if t := p.peek(); t.kind == tIdent && tyHeads[t.text] {
		p.pos++
		switch t.text {
		case "struct.t":
			return p.newType(&TypeDesc{kind: tyStruct, Name: p.ident()})
		case "arrowT":
			r := p.newType(&TypeDesc{kind: tyBase, Name: "arrowT"})
			for p.startsTyAtom() {
				r.Elem = append(r.Elem, p.tyAtom())
			}
			return r
		}
		r := p.newType(&TypeDesc{kind: tyBase, Name: t.text})
		r.Elem = []Type{p.tyAtom()}
		return r
	}
	return p.tyAtom()
}

func (p *parser) tyAtom() Type {
	if p.eatP("(") {
		first := p.ty()
		var r Type = first
		switch {
		case p.isP("*"):
			r = p.newType(&TypeDesc{kind: tyProd, Elem: []Type{first}})
			for p.eatP("*") {
				r.Elem = append(r.Elem, p.ty())
			}
		case p.isP("->"):
			r = p.newType(&TypeDesc{kind: tyBase, Name: "arrowT", Elem: []Type{first}})
			for p.eatP("->") {
				r.Elem = append(r.Elem, p.ty())
			}
		}
		p.wantP(")")
		if p.eatP("%") {
			p.wantI("ht")
		}
		for _, e := range r.Elem {
			r.open = r.open || e.open
		}
		return r
	}
	name := p.ident()
	if reserved[name] || tyHeads[name] || name == "arrayT" {
		p.pos--
		p.fail("expected a type (arrays are outside the grammar)")
	}
	return p.namedType(name)
}

// ---- expressions ---------------------------------------------------------------

var reserved = map[string]bool{"in": true, "then": true, "else": true}

var binPrec = map[string]int{
	"||": 1, "&&": 2,
	"=": 3, "≠": 3, "<": 3, ">": 3, "≤": 3, "≥": 3,
	"+": 4, "-": 4, "`or`": 4, "`xor`": 4,
	"*": 5, "`quot`": 5, "`rem`": 5, "`and`": 5, "≪": 5, "≫": 5,
}

// block ::= (let: pat := expr in | expr ;;)* expr
func (p *parser) block() Expr {
	var items []blockItem
	mark := len(p.scope)
	var final Expr
	for {
		if p.eatP("let:") {
			pt := p.pattern()
			p.wantP(":=")
			e := p.expr()
			p.wantI("in")
			p.pushPat(pt)
			items = append(items, blockItem{pt, e})
			continue
		}
		e := p.expr()
		if p.eatP(";;") {
			items = append(items, blockItem{nil, e})
			continue
		}
		final = e
		break
	}
	p.scope = p.scope[:mark]
	if len(items) == 0 {
		return final
	}
	return &block{items, final}
}

func (p *parser) pattern() *pat {
	if p.eatP("(") {
		l := p.pattern()
		p.wantP(",")
		r := p.pattern()
		p.wantP(")")
		return &pat{l: l, r: r}
	}
	return &pat{name: p.binder()}
}

func (p *parser) pushPat(pt *pat) {
	if pt.l != nil {
		p.pushPat(pt.l)
		p.pushPat(pt.r)
		return
	}
	p.push(pt.name)
}

// expr ::= binary | binary <-[ty] binary
func (p *parser) expr() Expr {
	l := p.binary(1)
	if p.eatP("<-[") {
		t := p.ty()
		p.wantP("]")
		return &store{t, l, p.binary(1)}
	}
	return l
}

func (p *parser) binary(min int) Expr {
	var l Expr
	if p.eatP("![") {
		t := p.ty()
		p.wantP("]")
		l = &load{t, p.operand()}
	} else {
		l = p.operand()
	}
	for {
		t := p.peek()
		pr, ok := binPrec[t.text]
		if t.kind != tPunct || !ok || pr < min {
			return l
		}
		p.pos++
		l = &binop{t.text, l, p.binary(pr + 1)}
	}
}

func (p *parser) startsAtom() bool {
	t := p.peek()
	switch t.kind {
	case tStr, tIdent:
		return t.kind == tStr || !reserved[t.text]
	case tPunct:
		return t.text == "(" || t.text == "#"
	}
	return false
}

// operand ::= atom atom*   with the printer's special forms recognised by their head
func (p *parser) operand() Expr {
	head := p.head()
	var args []Expr
	for p.startsAtom() {
		args = append(args, p.head())
	}
	if len(args) == 0 {
		return head
	}
	return &app{head, args}
}

// head is an atom, or one of the special forms that start with a fixed identifier.
func (p *parser) head() Expr {
	t := p.peek()
	if t.kind != tIdent {
		return p.atom()
	}
	switch t.text {
	case "struct.mk", "struct.new":
		p.pos++
		s := &structLit{desc: p.ident(), alloc: t.text == "struct.new", line: t.line}
		p.wantP("[")
		for !p.isP("]") {
			f := p.str()
			p.wantP("::=")
			s.fields = append(s.fields, fieldInit{f, p.expr()})
			if !p.eatP(";") && !p.isP("]") {
				p.fail("expected ';' or ']' in struct literal")
			}
		}
		p.wantP("]")
		p.prog.lits = append(p.prog.lits, s)
		p.prog.declOf[s] = p.prog.curDecl
		return s
	case "struct.get", "struct.loadF", "struct.storeF", "struct.fieldRef", "struct.alloc", "struct.load", "struct.store":
		p.pos++
		s := &structOp{op: t.text, desc: p.ident(), line: t.line}
		if t.text != "struct.alloc" && t.text != "struct.load" && t.text != "struct.store" {
			s.field = p.str()
		}
		p.prog.sops = append(p.prog.sops, s)
		p.prog.declOf[s] = p.prog.curDecl
		return s
	case "Fork":
		p.pos++
		p.wantP("(")
		b := p.block()
		p.wantP(")")
		return &fork{b}
	case "ForSlice":
		p.pos++
		f := &forSlice{t: p.tyAtom()}
		f.key, f.val = p.binder(), p.binder()
		f.s = p.atom()
		mark := len(p.scope)
		p.push(f.key)
		p.push(f.val)
		f.body = p.atom()
		p.scope = p.scope[:mark]
		return f
	case "Panic":
		if p.toks[p.pos+1].kind == tStr {
			p.pos += 2
			return &panicE{p.toks[p.pos-1].text}
		}
	}
	if tyHeads[t.text] {
		return &tyLit{p.ty()}
	}
	return p.atom()
}

func (p *parser) atom() Expr {
	t := p.next()
	switch {
	case t.kind == tStr:
		i := p.lookup(`"` + t.text)
		if i < 0 {
			p.pos--
			p.fail("variable %q is not bound", t.text)
		}
		return &local{t.text, i}
	case t.kind == tIdent:
		if reserved[t.text] {
			p.pos--
			p.fail("unexpected keyword")
		}
		if baseTypes[t.text] || p.lookup(t.text) >= 0 {
			p.pos--
			return &tyLit{p.tyAtom()}
		}
		g := &global{name: t.text, line: t.line}
		p.prog.globals = append(p.prog.globals, g)
		p.prog.declOf[g] = p.prog.curDecl
		return g
	case t.kind == tPunct && t.text == "#":
		return &lit{p.literal()}
	case t.kind == tPunct && t.text == "if:":
		return p.ifRest(false)
	case t.kind == tPunct && t.text == "(":
		switch {
		case p.eatP("if:"):
			return p.ifRest(true)
		case p.eatP("for:"):
			f := &forLoop{}
			f.cond = p.thunk(func() Expr { return p.expr() })
			p.wantP(";")
			f.post = p.thunk(func() Expr { return p.expr() })
			p.wantP(":=")
			p.wantP("λ:")
			p.wantP("<>")
			p.wantP(",")
			f.body = p.block()
			p.wantP(")")
			return f
		case p.eatP("λ:"):
			l := &lambda{}
			for p.isBinder() {
				l.params = append(l.params, p.binder())
			}
			if len(l.params) == 0 {
				p.fail("λ: without binders")
			}
			p.wantP(",")
			mark := len(p.scope)
			for _, b := range l.params {
				p.push(b)
			}
			l.body = p.block()
			p.scope = p.scope[:mark]
			p.wantP(")")
			return &lam{l}
		case p.eatP("~"):
			x := p.operand()
			p.wantP(")")
			return &not{x}
		}
		e := p.block()
		if first, ok := e.(*tyLit); ok && p.isP("->") { // (a -> b)%ht as an argument
			r := p.newType(&TypeDesc{kind: tyBase, Name: "arrowT", Elem: []Type{first.t}})
			for p.eatP("->") {
				r.Elem = append(r.Elem, p.ty())
			}
			p.wantP(")")
			if p.eatP("%") {
				p.wantI("ht")
			}
			return &tyLit{r}
		}
		for p.eatP(",") {
			e = &pair{e, p.expr()}
		}
		p.wantP(")")
		return e
	}
	p.pos--
	p.fail("expected an expression")
	return nil
}

// thunk parses "(λ: <>, e)" and returns e (the for: notation applies it to #()).
func (p *parser) thunk(body func() Expr) Expr {
	p.wantP("(")
	p.wantP("λ:")
	p.wantP("<>")
	p.wantP(",")
	e := body()
	p.wantP(")")
	return e
}

func (p *parser) ifRest(paren bool) Expr {
	c := p.expr()
	p.wantI("then")
	t := p.block()
	p.wantI("else")
	f := p.block()
	if paren {
		p.wantP(")")
	}
	return &ifte{c, t, f}
}

func (p *parser) literal() Value {
	t := p.next()
	switch {
	case t.kind == tNum:
		return U64(p.num(t, 64))
	case t.kind == tIdent && t.text == "true":
		return Bool(true)
	case t.kind == tIdent && t.text == "false":
		return Bool(false)
	case t.kind == tIdent && t.text == "null":
		return loc(0)
	case t.kind == tPunct && t.text == "(":
		if p.eatP(")") {
			return Unit
		}
		var v Value
		switch c := p.ident(); c {
		case "U32":
			v = U32(uint32(p.num(p.next(), 32)))
		case "U8":
			v = U8(uint8(p.num(p.next(), 8)))
		case "str":
			v = Str(p.str())
		default:
			p.pos--
			p.fail("unknown literal constructor")
		}
		p.wantP(")")
		return v
	}
	p.pos--
	p.fail("malformed literal after '#'")
	return Unit
}

func (p *parser) num(t token, bits int) uint64 {
	if t.kind != tNum {
		p.pos--
		p.fail("expected a number")
	}
	n, err := strconv.ParseUint(t.text, 10, bits)
	if err != nil {
		p.pos--
		p.fail("number does not fit in %d bits", bits)
	}
	return n
}
