package glang

import (
	"fmt"
	"unicode/utf8"
)

// Token kinds. Everything the printer can emit is an identifier (possibly
// qualified with dots), a natural number, a string, or a piece of punctuation;
// comments are dropped by the lexer (they nest, as in Coq).
type tokKind uint8

const (
	tEOF   tokKind = iota
	tIdent         // foo, lock.acquire, control.impl.Assume, Var'
	tNum           // 123
	tStr           // "..." (text without the quotes)
	tPunct         // ( ) [ ] , ; ;; : := :: ::= <-[ ![ <> # ~ + - * = < > ≠ ≤ ≥ ≪ ≫ && || -> `quot` let: if: for: rec: λ: and any other single rune
	tDot           // sentence terminator: '.' followed by white space or end of input
)

type token struct {
	kind tokKind
	text string
	line int
}

func (t token) String() string {
	switch t.kind {
	case tEOF:
		return "end of input"
	case tStr:
		return fmt.Sprintf("%q", t.text)
	case tDot:
		return "'.'"
	}
	return t.text
}

func isIdentStart(c byte) bool {
	return c == '_' || (c >= 'a' && c <= 'z') || (c >= 'A' && c <= 'Z')
}
func isIdentChar(c byte) bool { return isIdentStart(c) || (c >= '0' && c <= '9') || c == '\'' }

// keywords that the printer writes glued to a colon
var colonKeywords = map[string]bool{"let": true, "if": true, "for": true, "rec": true}

var multiPunct = []string{"::=", "<-[", ":=", "::", ";;", "![", "<>", "&&", "||", "->"}

// lex turns the whole file into tokens. The only file-level failure is an
// unterminated comment or string.
func lex(src string) ([]token, error) {
	var toks []token
	line := 1
	i := 0
	n := len(src)
	for i < n {
		c := src[i]
		switch {
		case c == '\n':
			line++
			i++
		case c == ' ' || c == '\t' || c == '\r':
			i++
		case c == '(' && i+1 < n && src[i+1] == '*':
			depth, start := 1, line
			i += 2
			for i < n && depth > 0 {
				switch {
				case src[i] == '(' && i+1 < n && src[i+1] == '*':
					depth++
					i += 2
				case src[i] == '*' && i+1 < n && src[i+1] == ')':
					depth--
					i += 2
				default:
					if src[i] == '\n' {
						line++
					}
					i++
				}
			}
			if depth > 0 {
				return nil, fmt.Errorf("line %d: unterminated comment", start)
			}
		case c == '"':
			// Coq string: "" is an escaped quote; no other escapes.
			j := i + 1
			var buf []byte
			closed := false
			for j < n {
				if src[j] == '"' {
					if j+1 < n && src[j+1] == '"' {
						buf = append(buf, '"')
						j += 2
						continue
					}
					closed = true
					break
				}
				if src[j] == '\n' {
					line++
				}
				buf = append(buf, src[j])
				j++
			}
			if !closed {
				return nil, fmt.Errorf("line %d: unterminated string", line)
			}
			toks = append(toks, token{tStr, string(buf), line})
			i = j + 1
		case c >= '0' && c <= '9':
			j := i
			for j < n && src[j] >= '0' && src[j] <= '9' {
				j++
			}
			toks = append(toks, token{tNum, src[i:j], line})
			i = j
		case isIdentStart(c):
			j := i
			for {
				for j < n && isIdentChar(src[j]) {
					j++
				}
				// a dot continues the identifier only when an identifier follows
				if j+1 < n && src[j] == '.' && isIdentStart(src[j+1]) {
					j++
					continue
				}
				break
			}
			word := src[i:j]
			if colonKeywords[word] && j < n && src[j] == ':' && (j+1 >= n || src[j+1] != '=') {
				toks = append(toks, token{tPunct, word + ":", line})
				j++
			} else {
				toks = append(toks, token{tIdent, word, line})
			}
			i = j
		case c == '.':
			if i+1 >= n || src[i+1] == ' ' || src[i+1] == '\n' || src[i+1] == '\t' || src[i+1] == '\r' {
				toks = append(toks, token{tDot, ".", line})
			} else {
				toks = append(toks, token{tPunct, ".", line})
			}
			i++
		case c == '`':
			// `quot` `rem` `and` `or` `xor`; a lone backquote (Context `{...}) is punctuation
			j := i + 1
			for j < n && isIdentChar(src[j]) {
				j++
			}
			if j < n && src[j] == '`' && j > i+1 {
				toks = append(toks, token{tPunct, src[i : j+1], line})
				i = j + 1
			} else {
				toks = append(toks, token{tPunct, "`", line})
				i++
			}
		default:
			matched := false
			for _, mp := range multiPunct {
				if len(src)-i >= len(mp) && src[i:i+len(mp)] == mp {
					toks = append(toks, token{tPunct, mp, line})
					i += len(mp)
					matched = true
					break
				}
			}
			if matched {
				break
			}
			r, sz := utf8.DecodeRuneInString(src[i:])
			if r == 'λ' && i+sz < n && src[i+sz] == ':' {
				toks = append(toks, token{tPunct, "λ:", line})
				i += sz + 1
				break
			}
			toks = append(toks, token{tPunct, string(r), line})
			i += sz
		}
	}
	toks = append(toks, token{tEOF, "", line})
	return toks, nil
}
