// Package simmachine replaces github.com/goose-lang/goose/machine in generated
// C03 programs (rewrite R8): the time-dependent primitives run on the
// simulated clock; everything else is the real package.
package simmachine

import (
	"github.com/goose-lang/goose/machine"

	"verif/simrt"
	"verif/simsync"
)

// Sleep suspends the task for ns of simulated time.
func Sleep(ns uint64) {
	if ns == 0 {
		simrt.Yield(-20)
		return
	}
	simrt.Sleep(int64(ns))
}

// TimeNow reads the simulated clock.
func TimeNow() uint64 { return uint64(simrt.NowNs()) }

// WaitTimeout is cond.Wait with a simulated-time bound.
func WaitTimeout(cond *simsync.Cond, timeoutMs uint64) {
	cond.WaitTimeout(int64(timeoutMs) * 1_000_000)
}

func UInt64ToString(x uint64) string { return machine.UInt64ToString(x) }
func Assume(c bool)                  { machine.Assume(c) }
func Assert(c bool)                  { machine.Assert(c) }
func UInt64Get(p []byte) uint64      { return machine.UInt64Get(p) }
func UInt64Put(p []byte, n uint64)   { machine.UInt64Put(p, n) }
func Linearize()                     {}
