package model

import (
	"fmt"
	"sort"
	"strings"
)

// FS is the reference model of machine/filesys.Filesys: directories map names
// to inodes, inodes hold bytes, every Create/Open yields a fresh independent
// descriptor (identified here by a caller-chosen handle), Create fails without
// effect iff the name exists, Link shares the inode, Delete removes only the
// name, ReadAt returns the bytes of [off, off+len) that exist, AtomicCreate
// installs a fresh inode, List returns the name set.
type FS struct {
	Dirs    map[string]bool
	Dirents map[string]int // "dir/name" -> inode
	Inodes  map[int][]byte
	Handles map[int]Handle // open descriptors by handle id
	NextIno int
}

type Handle struct {
	Ino    int
	Append bool
}

func NewFS() *FS {
	return &FS{Dirs: map[string]bool{}, Dirents: map[string]int{}, Inodes: map[int][]byte{}, Handles: map[int]Handle{}, NextIno: 1}
}

func key(dir, name string) string { return dir + "/" + name }

func (f *FS) Clone() *FS {
	g := &FS{Dirs: map[string]bool{}, Dirents: map[string]int{}, Inodes: map[int][]byte{}, Handles: map[int]Handle{}, NextIno: f.NextIno}
	for k, v := range f.Dirs {
		g.Dirs[k] = v
	}
	for k, v := range f.Dirents {
		g.Dirents[k] = v
	}
	for k, v := range f.Inodes {
		g.Inodes[k] = v // byte slices are never mutated in place
	}
	for k, v := range f.Handles {
		g.Handles[k] = v
	}
	return g
}

// Canon is a canonical encoding of the observable state (inode numbers are
// renamed by first use so that equal states compare equal).
func (f *FS) Canon() string {
	var sb strings.Builder
	ren := map[int]int{}
	r := func(ino int) int {
		if v, ok := ren[ino]; ok {
			return v
		}
		ren[ino] = len(ren) + 1
		return ren[ino]
	}
	ks := make([]string, 0, len(f.Dirents))
	for k := range f.Dirents {
		ks = append(ks, k)
	}
	sort.Strings(ks)
	for _, k := range ks {
		fmt.Fprintf(&sb, "%s=%d;", k, r(f.Dirents[k]))
	}
	hs := make([]int, 0, len(f.Handles))
	for h := range f.Handles {
		hs = append(hs, h)
	}
	sort.Ints(hs)
	for _, h := range hs {
		fmt.Fprintf(&sb, "h%d=%d,%v;", h, r(f.Handles[h].Ino), f.Handles[h].Append)
	}
	inv := make([]int, len(ren)+1)
	for ino, n := range ren {
		inv[n] = ino
	}
	for n := 1; n < len(inv); n++ {
		fmt.Fprintf(&sb, "i%d=%x;", n, f.Inodes[inv[n]])
	}
	ds := make([]string, 0, len(f.Dirs))
	for d := range f.Dirs {
		ds = append(ds, d)
	}
	sort.Strings(ds)
	sb.WriteString(strings.Join(ds, ","))
	return sb.String()
}

func (f *FS) Mkdir(dir string) { f.Dirs[dir] = true }

func (f *FS) Exists(dir, name string) bool { _, ok := f.Dirents[key(dir, name)]; return ok }

// Create: ok=false and no effect iff the name exists.
func (f *FS) Create(h int, dir, name string) bool {
	if f.Exists(dir, name) {
		return false
	}
	ino := f.NextIno
	f.NextIno++
	f.Inodes[ino] = nil
	f.Dirents[key(dir, name)] = ino
	f.Handles[h] = Handle{Ino: ino, Append: true}
	return true
}

// Append returns false if h is not an open append handle (precondition).
func (f *FS) Append(h int, data []byte) bool {
	hd, ok := f.Handles[h]
	if !ok || !hd.Append {
		return false
	}
	nd := make([]byte, 0, len(f.Inodes[hd.Ino])+len(data))
	nd = append(nd, f.Inodes[hd.Ino]...)
	nd = append(nd, data...)
	f.Inodes[hd.Ino] = nd
	return true
}

func (f *FS) Close(h int) bool {
	if _, ok := f.Handles[h]; !ok {
		return false
	}
	delete(f.Handles, h)
	return true
}

// Open returns false if the name does not exist (the call is refused).
func (f *FS) Open(h int, dir, name string) bool {
	ino, ok := f.Dirents[key(dir, name)]
	if !ok {
		return false
	}
	f.Handles[h] = Handle{Ino: ino}
	return true
}

// ReadAt returns the existing bytes of [off, off+n).
func (f *FS) ReadAt(h int, off, n uint64) ([]byte, bool) {
	hd, ok := f.Handles[h]
	if !ok || hd.Append {
		return nil, false
	}
	d := f.Inodes[hd.Ino]
	if off >= uint64(len(d)) {
		return nil, true
	}
	end := off + n
	if end > uint64(len(d)) || end < off {
		end = uint64(len(d))
	}
	return d[off:end], true
}

func (f *FS) Delete(dir, name string) bool {
	if !f.Exists(dir, name) {
		return false
	}
	delete(f.Dirents, key(dir, name))
	return true
}

// Link returns (result, valid): valid=false if the old name does not exist.
func (f *FS) Link(odir, oname, ndir, nname string) (bool, bool) {
	ino, ok := f.Dirents[key(odir, oname)]
	if !ok {
		return false, false
	}
	if f.Exists(ndir, nname) {
		return false, true
	}
	f.Dirents[key(ndir, nname)] = ino
	return true, true
}

func (f *FS) AtomicCreate(dir, name string, data []byte) {
	ino := f.NextIno
	f.NextIno++
	f.Inodes[ino] = append([]byte(nil), data...)
	f.Dirents[key(dir, name)] = ino
}

func (f *FS) List(dir string) []string {
	var out []string
	for k := range f.Dirents {
		if strings.HasPrefix(k, dir+"/") {
			out = append(out, k[len(dir)+1:])
		}
	}
	sort.Strings(out)
	return out
}

// Content returns the bytes a name currently refers to.
func (f *FS) Content(dir, name string) ([]byte, bool) {
	ino, ok := f.Dirents[key(dir, name)]
	if !ok {
		return nil, false
	}
	return f.Inodes[ino], true
}

// Chunk builds attributable file data: 8-byte little-endian words
// index<<40|id (so even a 1-byte chunk carries the low byte of its id): both
// the identity of the write and the position inside it can be read off.
func Chunk(id uint64, n int) []byte {
	b := make([]byte, n)
	for i := 0; i < n; i++ {
		w := uint64(i/8)<<40 | id&(1<<40-1)
		b[i] = byte(w >> (8 * uint(i%8)))
	}
	return b
}

// DescribeBytes summarises data made of Chunks for messages.
func DescribeBytes(b []byte) string {
	if len(b) == 0 {
		return "(empty)"
	}
	var parts []string
	i := 0
	for i < len(b) && len(parts) < 6 {
		if i+8 > len(b) {
			parts = append(parts, fmt.Sprintf("+%d tail bytes %x", len(b)-i, b[i:]))
			break
		}
		var w uint64
		for j := 0; j < 8; j++ {
			w |= uint64(b[i+j]) << (8 * uint(j))
		}
		id := w & (1<<40 - 1)
		j := i
		for j+8 <= len(b) {
			var w2 uint64
			for k := 0; k < 8; k++ {
				w2 |= uint64(b[j+k]) << (8 * uint(k))
			}
			if w2&(1<<40-1) != id {
				break
			}
			j += 8
		}
		parts = append(parts, fmt.Sprintf("%dB of chunk %#x from word %d", j-i, id, w>>40))
		if j == i {
			j = i + 8
		}
		i = j
	}
	return fmt.Sprintf("%d bytes: %s", len(b), strings.Join(parts, ", "))
}
