// Package model holds the small executable reference models used as oracles.
package model

import "encoding/binary"

const BlockSize = 4096

// Disk is the register-array specification: Size() independent 4096-byte
// registers, zero-initialised. Blocks are represented by the 8-byte id of the
// write that produced them (0 = never written) because every generated write
// fills the block with its id repeated.
type Disk struct {
	Blocks []uint64
}

func NewDisk(n uint64) *Disk { return &Disk{Blocks: make([]uint64, n)} }

func (d *Disk) Size() uint64 { return uint64(len(d.Blocks)) }

// Read returns (value, refused).
func (d *Disk) Read(a uint64) (uint64, bool) {
	if a >= d.Size() {
		return 0, true
	}
	return d.Blocks[a], false
}

// Write returns refused. bufLen is the length of the caller's buffer.
func (d *Disk) Write(a uint64, id uint64, bufLen int) bool {
	if bufLen != BlockSize || a >= d.Size() {
		return true
	}
	d.Blocks[a] = id
	return false
}

// Shape bits: bits 56..58 of a write id select how the id is laid out in the
// block, so that content with zero stretches, content that differs from another
// block only in a prefix or only in its last word, etc. occurs (optimisations
// that inspect content -- zero detection, delta writes, digests -- depend on it).
const (
	ShapeShift    = 56
	ShapeUniform  = 0 // every word is the id
	ShapeLastWord = 1 // only the last word is the id, the rest is zero
	ShapeFirst    = 2 // only the first word
	ShapeHeadHalf = 3 // the first half is the id, the second half zero
	ShapeTailHalf = 4 // the first half zero, the second half the id
)

// Shaped returns id with the given shape encoded in it.
func Shaped(id uint64, shape int) uint64 { return id&^(7<<ShapeShift) | uint64(shape)<<ShapeShift }

func shapeOf(id uint64) int { return int(id >> ShapeShift & 7) }

// MkBlock builds the attributable block for a write id: the id (all 64 bits,
// shape bits included) laid out according to its shape.
func MkBlock(id uint64, n int) []byte {
	b := make([]byte, n)
	words := n / 8
	put := func(w int) { binary.LittleEndian.PutUint64(b[8*w:], id) }
	switch shapeOf(id) {
	case ShapeLastWord:
		if words > 0 {
			put(words - 1)
		}
	case ShapeFirst:
		if words > 0 {
			put(0)
		}
	case ShapeHeadHalf:
		for w := 0; w < words/2; w++ {
			put(w)
		}
	case ShapeTailHalf:
		for w := words / 2; w < words; w++ {
			put(w)
		}
	default:
		for w := 0; w < words; w++ {
			put(w)
		}
		for i := n &^ 7; i < n; i++ {
			b[i] = byte(id)
		}
	}
	return b
}

// BlockID decodes a block: the id is its first non-zero word; uniform=true iff
// the whole block is exactly MkBlock(id); otherwise second is the first word
// that differs from what that id's layout has at its position.
func BlockID(b []byte) (id uint64, uniform bool, second uint64) {
	if len(b) < 8 {
		return 0, true, 0
	}
	for i := 0; i+8 <= len(b); i += 8 {
		if w := binary.LittleEndian.Uint64(b[i:]); w != 0 {
			id = w
			break
		}
	}
	if id == 0 {
		for _, x := range b {
			if x != 0 {
				return 0, false, uint64(x)
			}
		}
		return 0, true, 0
	}
	want := MkBlock(id, len(b))
	for i := 0; i+8 <= len(b); i += 8 {
		if w, e := binary.LittleEndian.Uint64(b[i:]), binary.LittleEndian.Uint64(want[i:]); w != e {
			return id, false, w
		}
	}
	for i := len(b) &^ 7; i < len(b); i++ {
		if b[i] != want[i] {
			return id, false, uint64(b[i])
		}
	}
	return id, true, 0
}
