// Package model holds the small executable reference models used as oracles.
package model

import "encoding/binary"

const BlockSize = 4096

// Disk is the register-array specification: Size() independent 4096-byte
// registers, zero-initialised. Blocks are represented by the 8-byte id of the
// write that produced them (0 = never written) because every generated write
// fills the block with its id repeated.
type Disk struct {
	Blocks []uint64
}

func NewDisk(n uint64) *Disk { return &Disk{Blocks: make([]uint64, n)} }

func (d *Disk) Size() uint64 { return uint64(len(d.Blocks)) }

// Read returns (value, refused).
func (d *Disk) Read(a uint64) (uint64, bool) {
	if a >= d.Size() {
		return 0, true
	}
	return d.Blocks[a], false
}

// Write returns refused. bufLen is the length of the caller's buffer.
func (d *Disk) Write(a uint64, id uint64, bufLen int) bool {
	if bufLen != BlockSize || a >= d.Size() {
		return true
	}
	d.Blocks[a] = id
	return false
}

// MkBlock builds the attributable block for a write id: the id repeated.
func MkBlock(id uint64, n int) []byte {
	b := make([]byte, n)
	for i := 0; i+8 <= n; i += 8 {
		binary.LittleEndian.PutUint64(b[i:], id)
	}
	for i := n &^ 7; i < n; i++ {
		b[i] = byte(id)
	}
	return b
}

// BlockID decodes a block: uniform=true iff all 8-byte words are equal.
func BlockID(b []byte) (id uint64, uniform bool, second uint64) {
	if len(b) < 8 {
		return 0, true, 0
	}
	id = binary.LittleEndian.Uint64(b)
	for i := 8; i+8 <= len(b); i += 8 {
		if w := binary.LittleEndian.Uint64(b[i:]); w != id {
			return id, false, w
		}
	}
	return id, true, 0
}
