// Package synyield provides the perturbation points spliced into
// machine/prims.go for the C16 "perturb" batch: inside a testing/synctest
// bubble the Go runtime, not the simulator, picks the next goroutine, so these
// points nudge it (runtime.Gosched) according to a per-run script drawn from
// the seed. They are no-ops unless a script is installed.
package synyield

import (
	"runtime"
	"sync/atomic"
)

var script atomic.Pointer[[]uint8]
var pos atomic.Int64

// Install sets the perturbation script for the next run (nil = none).
func Install(s []uint8) {
	pos.Store(0)
	if s == nil {
		script.Store(nil)
		return
	}
	script.Store(&s)
}

// Point is called before every statement of the instrumented file.
func Point(site int) {
	sp := script.Load()
	if sp == nil {
		return
	}
	s := *sp
	i := int(pos.Add(1) - 1)
	if i >= len(s) {
		return
	}
	for k := uint8(0); k < s[i]; k++ {
		runtime.Gosched()
	}
}
