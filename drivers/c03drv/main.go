// c03drv is the driver for C03 (concurrent programs: Go outcomes are GooseLang
// outcomes, over all schedules). Both sides are simulated: the generated Go
// programs run under verif/simrt (sync -> simsync, go -> simrt.Go, yields
// before every statement, machine.Sleep/WaitTimeout on the simulated clock),
// the GooseLang text emitted by /repo's goose for the same programs runs on the
// verif/glang interpreter, whose threads are simrt tasks too.
package main

import (
	"encoding/json"
	"fmt"
	"os"
	"strings"

	"verif/c03gen"
	"verif/drivers/c03drv/probe"
	"verif/drivers/c03drv/prog"
	"verif/glang"
	"verif/harness"
	"verif/simrt"
)

type Plan struct {
	GenSeed uint64 `json:"gen_seed"`
	N       int    `json:"n_programs"`
	Prog    string `json:"prog"`
	Class   string `json:"class"`
	Source  string `json:"source,omitempty"`
	// Probe: a program in a shape the shipped goose rejects (reject-or-faithful).
	Probe bool `json:"probe,omitempty"`
	// Interleavings of the GooseLang side sampled for the determinism clause.
	GLSeeds []uint64 `json:"gl_seeds,omitempty"`
}

// apiPairs: an auxiliary, NON-simulation assertion (labelled aux.* like C16's):
// every sync/machine call of the Go source must appear as the corresponding
// GooseLang primitive the same number of times in the emitted definition(s).
// Needed because cond.Signal and cond.Broadcast are both no-ops in GooseLang's
// model, so swapping them is invisible to any execution-based oracle.
var apiPairs = [][2]string{
	{".Lock()", "lock.acquire "}, {".Unlock()", "lock.release "}, {".Signal()", "lock.condSignal "},
	{".Broadcast()", "lock.condBroadcast "}, {"cond.Wait()", "lock.condWait "}, {"machine.WaitTimeout(", "lock.condWaitTimeout "},
	{"wg.Add(", "waitgroup.Add "}, {"wg.Done()", "waitgroup.Done "}, {"wg.Wait()", "waitgroup.Wait "},
	{"go func()", "Fork ("}, {"machine.Sleep(", "time.Sleep "}, {"new(sync.Mutex)", "lock.new "}, {"sync.NewCond(", "lock.newCond "},
}

var vText string

// defText returns the emitted text of one Definition.
func defText(name string) string {
	i := strings.Index(vText, "Definition "+name+":")
	if i < 0 {
		return ""
	}
	j := strings.Index(vText[i+10:], "\nDefinition ")
	if j < 0 {
		return vText[i:]
	}
	return vText[i : i+10+j]
}

var (
	probeBatch   c03gen.Batch
	probeByName  = map[string]c03gen.Meta{}
	probeProgram *glang.Program
	probeVText   string
)

var (
	batch    c03gen.Batch
	byName   = map[string]c03gen.Meta{}
	program  *glang.Program
	loadErr  string
	gooseErr string
	loaded   bool
)

func load() {
	if loaded {
		return
	}
	loaded = true
	mb, err := os.ReadFile(os.Getenv("VERIF_C03_META"))
	if err != nil {
		loadErr = "meta: " + err.Error()
		return
	}
	if err := json.Unmarshal(mb, &batch); err != nil {
		loadErr = "meta: " + err.Error()
		return
	}
	for _, f := range batch.Funcs {
		byName[f.Name] = f
	}
	if eb, err := os.ReadFile(os.Getenv("VERIF_C03_GOOSE_ERR")); err == nil {
		gooseErr = strings.TrimSpace(string(eb))
	}
	vb, err := os.ReadFile(os.Getenv("VERIF_C03_V"))
	if err != nil {
		if gooseErr == "" {
			loadErr = "emitted .v file: " + err.Error()
		}
		return
	}
	vText = string(vb)
	p, err := glang.Parse(string(vb))
	if err != nil {
		loadErr = "reader: " + err.Error()
		return
	}
	program = p
	// probe shapes (optional)
	if pm, err := os.ReadFile(os.Getenv("VERIF_C03_PROBE_META")); err == nil {
		if json.Unmarshal(pm, &probeBatch) == nil {
			for _, f := range probeBatch.Funcs {
				probeByName[f.Name] = f
			}
		}
	}
	if pv, err := os.ReadFile(os.Getenv("VERIF_C03_PROBE_V")); err == nil {
		probeVText = string(pv)
		if pp, err := glang.Parse(probeVText); err == nil {
			probeProgram = pp
		}
	}
}

type c03 struct{}

func (c03) ID() string                               { return "C03" }
func (c03) Strategy(rng *simrt.Rand) simrt.Strategy  { return pickStrategy(rng) }
func (c03) Expand(json.RawMessage) []json.RawMessage { return nil }
func (c03) Shrink(json.RawMessage) []json.RawMessage { return nil }

func pickStrategy(rng *simrt.Rand) simrt.Strategy {
	switch rng.Intn(8) {
	case 0, 1:
		return simrt.Strategy{Kind: "uniform"}
	case 2:
		return simrt.Strategy{Kind: "sticky", Den: 2}
	case 3:
		return simrt.Strategy{Kind: "sticky", Den: 8}
	case 4:
		return simrt.Strategy{Kind: "sticky", Den: 32}
	case 5:
		return simrt.Strategy{Kind: "pct", Depth: 1, EstLen: 150}
	case 6:
		return simrt.Strategy{Kind: "pct", Depth: 2, EstLen: 150}
	default:
		return simrt.Strategy{Kind: "pct", Depth: 3, EstLen: 150}
	}
}

// fairStrategy: the GooseLang model of cond.Wait and of lock acquisition spins,
// so only probabilistically fair strategies are used on that side (a strict
// priority scheduler such as PCT would let a spinning thread starve the thread
// it waits for, which says nothing about the translation).
func fairStrategy(rng *simrt.Rand) simrt.Strategy {
	switch rng.Intn(4) {
	case 0, 1:
		return simrt.Strategy{Kind: "uniform"}
	case 2:
		return simrt.Strategy{Kind: "sticky", Den: 2}
	default:
		return simrt.Strategy{Kind: "sticky", Den: 6}
	}
}

func (c03) Gen(rng *simrt.Rand, tier string, run int) interface{} {
	load()
	if len(batch.Funcs) == 0 {
		return Plan{}
	}
	f := batch.Funcs[run%len(batch.Funcs)]
	p := Plan{GenSeed: batch.Seed, N: len(batch.Funcs), Prog: f.Name, Class: f.Class, Source: f.Source}
	if run%12 == 11 && len(probeBatch.Funcs) > 0 {
		f = probeBatch.Funcs[(run/12)%len(probeBatch.Funcs)]
		p = Plan{GenSeed: batch.Seed, N: len(batch.Funcs), Prog: f.Name, Class: f.Class, Source: f.Source, Probe: true}
	}
	for i := 0; i < 3; i++ {
		p.GLSeeds = append(p.GLSeeds, rng.Uint64())
	}
	return p
}

func toGuide(tr []simrt.SyncEv) []glang.SyncEvent {
	out := make([]glang.SyncEvent, len(tr))
	for i, e := range tr {
		out[i] = glang.SyncEvent{Thread: e.Thread, Kind: e.Kind, Obj: e.Obj, N: e.N}
	}
	return out
}

func traceString(tr []simrt.SyncEv) string {
	var sb strings.Builder
	for _, e := range tr {
		fmt.Fprintf(&sb, "%s:%s", e.Thread, e.Kind)
		if e.Kind != "exit" {
			fmt.Fprintf(&sb, "#%d", e.Obj)
		}
		if e.N != 0 {
			fmt.Fprintf(&sb, "(%d)", e.N)
		}
		sb.WriteString(" ")
	}
	return sb.String()
}

func (c03) Exec(pj json.RawMessage, tape *simrt.Tape, keepLog bool) harness.RunOut {
	load()
	var p Plan
	if err := json.Unmarshal(pj, &p); err != nil {
		return harness.RunOut{Infra: err.Error()}
	}
	if loadErr != "" {
		return harness.RunOut{Infra: loadErr}
	}
	out := harness.RunOut{Probes: map[string]int{}, Faults: map[string]int{}}
	facts := ""
	fail := func(oracle, msg string) {
		if out.Violation == nil {
			out.Violation = &harness.Violation{Oracle: oracle, Key: oracle + facts, Msg: fmt.Sprintf("program %s (class %s, generator seed %d):\n%s\n%s", p.Prog, p.Class, p.GenSeed, p.Source, msg)}
		}
	}
	if p.GenSeed != batch.Seed || p.N != len(batch.Funcs) {
		return harness.RunOut{Infra: fmt.Sprintf("plan is for batch (seed %d, n %d) but the driver was built for (seed %d, n %d)", p.GenSeed, p.N, batch.Seed, len(batch.Funcs))}
	}
	program, byName, registry := program, byName, prog.Registry
	if p.Probe {
		// reject-or-faithful: a shape the shipped translator rejects
		if _, ok := probeByName[p.Prog]; !ok {
			return harness.RunOut{Infra: "unknown probe program " + p.Prog}
		}
		if probeProgram != nil && probeProgram.Funcs[p.Prog] == nil {
			if why := probeProgram.Refused[p.Prog]; why != "" {
				// goose DID emit a definition, but it is not a well-formed program
				out.Fingerprint = simrt.HashString("probe-ill-formed" + p.Prog)
				if m, ok := probeByName[p.Prog]; ok && len(m.Features) > 0 {
					facts = "/probe/" + m.Features[0]
				}
				if strings.Contains(why, "is not bound") {
					// a free variable: the GooseLang machine is stuck when it gets there
					fail("gl.stuck", "goose translated the program, but the emitted definition is not closed: "+why)
				} else {
					out.Probes["probe_outside_the_readers_grammar"]++
				}
				return out
			}
		}
		if probeProgram == nil || probeProgram.Funcs[p.Prog] == nil {
			out.Fingerprint = simrt.HashString("probe-rejected" + p.Prog)
			out.Probes["probe_rejected_by_goose"]++
			return out
		}
		out.Probes["probe_accepted_by_goose"]++
		program, byName, registry = probeProgram, probeByName, probe.Registry
		facts = "/probe"
	}
	meta, ok := byName[p.Prog]
	if p.Probe && len(meta.Features) > 0 {
		facts = "/probe/" + meta.Features[0] // one finding per probe shape
	}
	for _, f := range meta.Features {
		if f == "loop-var-captured-directly" {
			facts = "/loop-var-captured-directly"
		}
		if f == "var-struct-fields-two-locks" {
			facts = "/var-struct-field-load"
		}
	}
	fn := registry[p.Prog]
	if !ok || fn == nil {
		return harness.RunOut{Infra: "unknown program " + p.Prog}
	}
	if gooseErr != "" && !p.Probe {
		out.Fingerprint = simrt.HashString("rejected")
		fail("gl.rejected", "goose did not translate the generated package, which the unchanged tree accepts:\n"+gooseErr)
		return out
	}
	if why, refused := program.Refused[p.Prog]; refused {
		if strings.Contains(why, "is not bound") {
			out.Fingerprint = simrt.HashString("ill-formed" + p.Prog)
			fail("gl.stuck", "the emitted definition is not closed (a free variable is where the GooseLang machine gets stuck): "+why)
			return out
		}
		return harness.RunOut{Infra: "reader refused " + p.Prog + ": " + why}
	}
	if _, ok := program.Funcs[p.Prog]; !ok {
		out.Fingerprint = simrt.HashString("missing")
		fail("gl.rejected", "the emitted file has no definition for "+p.Prog)
		return out
	}
	// ---- auxiliary API-correspondence assertion (not simulation) --------------------
	if !p.Probe && !strings.Contains(p.Source, "S"+strings.TrimPrefix(p.Prog, "p")+"{") { // struct programs call methods defined elsewhere
		dt := defText(p.Prog)
		for _, pr := range apiPairs {
			g, v := strings.Count(p.Source, pr[0]), strings.Count(dt, pr[1])
			if pr[0] == "cond.Wait()" {
				g = strings.Count(p.Source, "cond.Wait()")
			}
			if g != v {
				out.Fingerprint = simrt.HashString("aux" + p.Prog)
				fail("aux.api-correspondence", fmt.Sprintf("the Go source has %d x %q but the emitted definition has %d x %q:\n%s", g, pr[0], v, strings.TrimSpace(pr[1]), dt))
				return out
			}
		}
		out.Probes["aux_api_correspondence"]++
	}
	// ---- Go side -------------------------------------------------------------
	s := simrt.New(simrt.Config{Tape: tape, KeepLog: keepLog, PathNames: true, TraceSync: true, MaxSteps: 100000})
	var goVal uint64
	returned := false
	res := s.Run(func() {
		goVal = fn()
		returned = true
	})
	out.Fingerprint = res.Fingerprint
	out.Events = res.Events
	out.SimTime = res.SimTime
	out.Sched, out.Aux = tape.Sched, tape.Aux
	for k, v := range s.Probes {
		out.Probes[k] += v
	}
	if keepLog {
		out.Log = append(out.Log, res.Log...)
		out.Log = append(out.Log, "go trace: "+traceString(s.SyncTrace))
	}
	out.Sample = map[string]interface{}{"prog": p.Prog, "class": p.Class, "features": meta.Features, "go_result": goVal, "source": p.Source}
	var panics []string
	for _, t := range s.Tasks() {
		if t.PanicVal != nil {
			panics = append(panics, fmt.Sprintf("%s: %v", t.Name, t.PanicVal))
		}
	}
	if res.Outcome != simrt.Completed || !returned || len(panics) > 0 {
		// the generator promises terminating, panic-free programs
		out.Infra = fmt.Sprintf("generator bug: Go run of %s ended with %v %s panics=%v", p.Prog, res.Outcome, res.Detail, panics)
		return out
	}
	if p.Class == "det" && goVal != meta.Expected {
		out.Infra = fmt.Sprintf("generator bug: deterministic program %s returned %d in Go, generator computed %d", p.Prog, goVal, meta.Expected)
		return out
	}
	out.NonTrivial = res.Switches > 2
	out.Probes["go_runs"]++
	if simrt.RaceEnabled {
		// race flavour: only validates that generated programs are race-free in Go
		return out
	}
	// ---- GooseLang side: inclusion by schedule transfer ------------------------------
	want := fmt.Sprint(goVal)
	guide := toGuide(s.SyncTrace)
	gr := program.Run(p.Prog, []glang.Value{glang.Unit}, glang.Options{Guide: guide, KeepLog: keepLog})
	out.Events += gr.Steps
	if keepLog {
		out.Log = append(out.Log, fmt.Sprintf("guided GooseLang run: outcome=%s value=%s detail=%s race=%q", gr.Outcome, gr.Value, gr.Detail, gr.Race))
	}
	if gr.Outcome == "unknown-primitive" {
		if p.Probe {
			out.Inconclusive = "probe-uses-unmodelled-primitive"
			return out
		}
		out.Infra = "interpreter: " + gr.Detail
		return out
	}
	if gr.Race != "" {
		fail("gl.cell-race", fmt.Sprintf("Go is race-free on this schedule, but the translated program has a cell race (the GooseLang machine can get stuck): %s\n  Go sync trace: %s", gr.Race, traceString(s.SyncTrace)))
		return out
	}
	if gr.Outcome == "stuck" {
		fail("gl.stuck", fmt.Sprintf("following Go's order of synchronisation events the GooseLang machine gets stuck: %s", gr.Detail))
		return out
	}
	if gr.Outcome == "returned" && gr.Value == want {
		out.Probes["guided_reproduced"]++
	} else {
		out.Probes["guided_not_reproduced"]++
		// search: is Go's result reachable at all?
		found := false
		var seen []string
		stepLimits := 0
		for i := 0; i < 300 && !found && stepLimits < 12; i++ {
			tp := simrt.NewTape(simrt.NewRand(simrt.Mix(p.GenSeed, simrt.HashString(p.Prog), uint64(i))), fairStrategy(simrt.NewRand(uint64(i))))
			r := program.Run(p.Prog, []glang.Value{glang.Unit}, glang.Options{Tape: tp, MaxSteps: 20000})
			out.Events += r.Steps
			if r.Outcome == "returned" && r.Value == want {
				found = true
			}
			if r.Outcome == "step-limit" {
				stepLimits++
			}
			if len(seen) < 8 {
				seen = append(seen, r.Outcome+":"+r.Value)
			}
		}
		if !found {
			fail("gl.unreachable-result", fmt.Sprintf("Go returned %s on this schedule; the GooseLang program, driven along the same order of synchronisation events, gave outcome=%s value=%s (%s), and %s was not reached in 300 random interleavings either (seen: %v)\n  Go sync trace: %s",
				want, gr.Outcome, gr.Value, gr.Detail, want, seen, traceString(s.SyncTrace)))
			return out
		}
	}
	// ---- determinism clause ------------------------------------------------------------
	if p.Class == "det" {
		for _, sd := range p.GLSeeds {
			tp := simrt.NewTape(simrt.NewRand(sd), fairStrategy(simrt.NewRand(sd)))
			r := program.Run(p.Prog, []glang.Value{glang.Unit}, glang.Options{Tape: tp, MaxSteps: 50000})
			out.Events += r.Steps
			out.Probes["gl_interleavings"]++
			out.Fingerprint = out.Fingerprint*1099511628211 ^ r.Fingerprint
			switch {
			case r.Outcome == "unknown-primitive":
				if p.Probe {
					out.Inconclusive = "probe-uses-unmodelled-primitive"
					return out
				}
				out.Infra = "interpreter: " + r.Detail
				return out
			case r.Race != "":
				fail("gl.cell-race", "a complete interleaving of the translated program has a cell race: "+r.Race)
			case r.Outcome == "stuck":
				fail("gl.stuck", "a complete interleaving of the translated program gets stuck: "+r.Detail)
			case r.Outcome == "deadlock":
				fail("gl.deadlock", "a complete interleaving of the translated program deadlocks: "+r.Detail)
			case r.Outcome == "step-limit":
				fail("gl.diverged", "an interleaving of the translated program did not finish within the step limit: "+r.Detail)
			case r.Outcome != "returned" || r.Value != want:
				fail("gl.nondeterministic", fmt.Sprintf("Go's result %s does not depend on the schedule, but an interleaving of the translated program gives outcome=%s value=%s %s", want, r.Outcome, r.Value, r.Detail))
			}
			if out.Violation != nil {
				if keepLog {
					r2 := program.Run(p.Prog, []glang.Value{glang.Unit}, glang.Options{Tape: simrt.Replay(tp.Sched, tp.Aux), KeepLog: true})
					out.Log = append(out.Log, r2.Log...)
				}
				return out
			}
		}
	}
	return out
}

func main() {
	harness.Main(map[string]harness.Check{"C03": c03{}})
}
