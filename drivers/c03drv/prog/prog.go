// Package prog is a placeholder: at check time cmd/verifcheck overlays it with
// a freshly generated batch of concurrent Goose programs (verif/c03gen),
// instrumented by the rewriter, plus the registry of its functions.
package prog

// Registry maps generated function names to the functions.
var Registry = map[string]func() uint64{}
