// Package probe is a placeholder overlaid at check time with generated
// programs in shapes the shipped translator rejects (see c03gen.GenerateProbe).
package probe

// Registry maps generated function names to the functions.
var Registry = map[string]func() uint64{}
