// Package c16drv is the driver for C16 (machine.WaitTimeout under a fake
// clock). Its real content is in c16_test.go, built as a test binary by
// go1.26.8 because testing/synctest needs a *testing.T.
package c16drv
