//go:build go1.25

//go:debug asynctimerchan=0

package c16drv

import (
	"encoding/json"
	"fmt"
	"os"
	"runtime"
	"sort"
	"strings"
	"sync"
	"testing"
	"testing/synctest"
	"time"

	"github.com/goose-lang/goose/machine"

	"verif/harness"
	"verif/simrt"
	"verif/synyield"
)

// C16 — WaitTimeout returns with the caller's lock held, no later than a
// bounded delay after the timeout and promptly after a signal.
//
// Simulator: testing/synctest (fake clock + quiescence). Everything real:
// machine/prims.go, the primitive dependency, sync, time. All choices are drawn
// before entering the bubble; events are placed at distinct simulated instants.

type Event struct {
	AtUs int64  `json:"at_us"` // simulated time, microseconds since the start
	Kind string `json:"kind"`  // signal, broadcast, waiter (a plain cond.Wait)
}

type Call struct {
	TimeoutMs uint64 `json:"timeout_ms"`
	GapUs     int64  `json:"gap_us"` // pause (lock released) before this call
}

type WTPlan struct {
	Batch  string  `json:"batch"` // wt | aux | perturb
	Calls  []Call  `json:"calls"`
	Events []Event `json:"events"`
	// perturb batch: events may tie with call starts / expiries, the Go
	// runtime's goroutine choice is nudged at the yield points spliced into
	// machine/prims.go, and the plan is repeated Reps times with scripts
	// derived from ScriptSeed.
	ScriptSeed uint64 `json:"script_seed,omitempty"`
	Reps       int    `json:"reps,omitempty"`
}

type c16 struct{}

var theT *testing.T

func (c16) ID() string                               { return "C16" }
func (c16) Strategy(rng *simrt.Rand) simrt.Strategy  { return simrt.Strategy{Kind: "seq"} }
func (c16) Expand(json.RawMessage) []json.RawMessage { return nil }

var timeouts = []uint64{0, 1, 2, 10, 100, 10000, 1 << 32}

func (c16) Gen(rng *simrt.Rand, tier string, run int) interface{} {
	if run%64 == 63 {
		return WTPlan{Batch: "aux"}
	}
	if run%4 == 2 {
		return genPerturb(rng)
	}
	p := WTPlan{Batch: "wt"}
	n := 1
	if rng.Chance(1, 2) {
		n = 1 + rng.Intn(3)
	}
	var starts []int64 // rough start estimates to aim events at
	at := int64(0)
	for i := 0; i < n; i++ {
		c := Call{TimeoutMs: timeouts[rng.Intn(len(timeouts))], GapUs: int64(rng.Pick(0, 3, 500, 20000))}
		if rng.Chance(1, 8) {
			c.TimeoutMs = uint64(rng.Intn(300))
		}
		if i == 0 {
			c.GapUs = 0
		}
		at += c.GapUs
		starts = append(starts, at)
		p.Calls = append(p.Calls, c)
		t := int64(c.TimeoutMs) * 1000
		if c.TimeoutMs > 100000 {
			t = 50000
		}
		at += t
	}
	ne := rng.Intn(5)
	for j := 0; j < ne; j++ {
		ci := rng.Intn(n)
		T := int64(p.Calls[ci].TimeoutMs) * 1000
		if p.Calls[ci].TimeoutMs > 100000 {
			T = 1 << 40
		}
		var rel int64
		switch rng.Intn(6) {
		case 0:
			rel = T / 2 // before the timeout
		case 1:
			rel = T - 5 // just before
		case 2:
			rel = T + 5 // just after
		case 3:
			rel = T + 900000 // long after
		case 4:
			rel = 1 + int64(rng.Intn(50))
		default:
			rel = int64(rng.Intn(200000))
		}
		if rel < 1 {
			rel = 1
		}
		e := Event{AtUs: starts[ci] + rel, Kind: []string{"signal", "signal", "broadcast", "waiter"}[rng.Intn(4)]}
		p.Events = append(p.Events, e)
	}
	// distinct instants: event j gets a unique sub-microsecond-free offset
	sort.Slice(p.Events, func(i, j int) bool { return p.Events[i].AtUs < p.Events[j].AtUs })
	for j := range p.Events {
		p.Events[j].AtUs = p.Events[j].AtUs*16 + int64(j) + 1 // unit below is 1/16 us
	}
	for i := range p.Calls {
		p.Calls[i].GapUs *= 16
	}
	return p
}

func (c16) Shrink(pj json.RawMessage) []json.RawMessage {
	var p WTPlan
	json.Unmarshal(pj, &p)
	var out []json.RawMessage
	add := func(q WTPlan) {
		b, _ := json.Marshal(q)
		out = append(out, b)
	}
	for i := range p.Events {
		q := p
		q.Events = append(append([]Event{}, p.Events[:i]...), p.Events[i+1:]...)
		add(q)
	}
	if len(p.Calls) > 1 {
		q := p
		q.Calls = p.Calls[:len(p.Calls)-1]
		add(q)
		q2 := p
		q2.Calls = append([]Call{}, p.Calls[1:]...)
		add(q2)
	}
	for i, c := range p.Calls {
		for _, t := range []uint64{0, 1, 10} {
			if t < c.TimeoutMs {
				q := p
				q.Calls = append([]Call{}, p.Calls...)
				q.Calls[i].TimeoutMs = t
				add(q)
			}
		}
		if c.GapUs > 0 {
			q := p
			q.Calls = append([]Call{}, p.Calls...)
			q.Calls[i].GapUs = 0
			add(q)
		}
	}
	return out
}

const unit = time.Microsecond / 16 // plan time unit: 62.5ns -> use 62ns steps
const eps = time.Millisecond

type callObs struct {
	Start, End time.Duration
	LockHeld   bool
	Panic      string
}

// daemonsLeft: a bubble ended with its main goroutine finished -- every
// WaitTimeout call returned, every event goroutine was joined -- while other
// goroutines stayed blocked. Those belong to the implementation (a lazily
// started reaper, a per-cond helper): the property does not forbid them, but
// channels and timers they hold are tied to the finished bubble, so this OS
// process is of no further use and a fresh one continues.
var daemonsLeft bool

// freshBubble runs before every bubble. Channels and timers made inside a
// bubble may not be touched from another one (the Go runtime aborts the process:
// "... synctest channel from outside bubble"), so nothing that holds one may
// survive from bubble to bubble. Per-call records that an implementation
// recycles through a sync.Pool would; two collections empty every pool
// (a pool's victim cache lives for one more cycle).
func freshBubble() {
	runtime.GC()
	runtime.GC()
}

func bubblePanic(msg string) (stuck string) {
	if strings.Contains(msg, "main bubble goroutine has exited") {
		daemonsLeft = true
		return ""
	}
	return msg
}

func (c c16) Exec(pj json.RawMessage, tape *simrt.Tape, keepLog bool) harness.RunOut {
	out := c.exec(pj, tape, keepLog)
	if daemonsLeft {
		out.Tainted, out.Restart = true, true
		if out.Probes == nil {
			out.Probes = map[string]int{}
		}
		out.Probes["bubble_left_daemons"]++
	}
	return out
}

func (c16) exec(pj json.RawMessage, tape *simrt.Tape, keepLog bool) harness.RunOut {
	var p WTPlan
	if err := json.Unmarshal(pj, &p); err != nil {
		return harness.RunOut{Infra: err.Error()}
	}
	out := harness.RunOut{Probes: map[string]int{}, Faults: map[string]int{}}
	if p.Batch == "aux" {
		out.Fingerprint = simrt.HashString("aux")
		out.Probes["aux_assertions"]++
		out.Violation = auxAssertions()
		return out
	}
	if p.Batch == "perturb" {
		return execPerturb(&p, pj, keepLog)
	}
	obs := make([]callObs, len(p.Calls))
	type evObs struct {
		At   time.Duration
		Done bool
	}
	evs := make([]evObs, len(p.Events))
	stuck := ""
	var totalSim time.Duration
	func() {
		defer func() {
			if r := recover(); r != nil {
				stuck = bubblePanic(fmt.Sprint(r))
			}
		}()
		freshBubble()
		synctest.Test(theT, func(t *testing.T) {
			var mu sync.Mutex
			cond := sync.NewCond(&mu)
			t0 := time.Now()
			var wg sync.WaitGroup
			finished := false
			for j, e := range p.Events {
				j, e := j, e
				wg.Add(1)
				go func() {
					defer wg.Done()
					time.Sleep(time.Duration(e.AtUs) * unit)
					mu.Lock()
					if finished {
						mu.Unlock()
						return
					}
					evs[j].At = time.Since(t0)
					evs[j].Done = true
					switch e.Kind {
					case "signal":
						cond.Signal()
						mu.Unlock()
					case "broadcast":
						cond.Broadcast()
						mu.Unlock()
					case "waiter":
						cond.Wait()
						mu.Unlock()
					}
				}()
			}
			mu.Lock()
			for i, c := range p.Calls {
				if c.GapUs > 0 {
					mu.Unlock()
					time.Sleep(time.Duration(c.GapUs) * unit)
					mu.Lock()
				}
				obs[i].Start = time.Since(t0)
				func() {
					defer func() {
						if r := recover(); r != nil {
							obs[i].Panic = fmt.Sprint(r)
						}
					}()
					machine.WaitTimeout(cond, c.TimeoutMs)
				}()
				obs[i].End = time.Since(t0)
				if obs[i].Panic != "" {
					break
				}
				// the caller's lock must be held: TryLock fails
				if mu.TryLock() {
					obs[i].LockHeld = false
					// we now hold it either way
				} else {
					obs[i].LockHeld = true
				}
			}
			finished = true
			mu.Unlock()
			totalSim = time.Since(t0)
			// drain: release every waiter (plain waiters, helper goroutines of
			// timed-out calls) so that the bubble can end
			for k := 0; k < 8; k++ {
				mu.Lock()
				cond.Broadcast()
				mu.Unlock()
				synctest.Wait()
			}
			wg.Wait()
		})
	}()
	out.SimTime = int64(totalSim)
	// fingerprint: plan + observations
	var sb strings.Builder
	sb.Write(pj)
	for _, o := range obs {
		fmt.Fprintf(&sb, "|%d,%d,%v,%s", o.Start, o.End, o.LockHeld, o.Panic)
	}
	out.Fingerprint = simrt.HashString(sb.String())
	if keepLog {
		for i, o := range obs {
			out.Log = append(out.Log, fmt.Sprintf("call %d: WaitTimeout(%d ms) start=%v end=%v elapsed=%v lockHeld=%v panic=%q", i, p.Calls[i].TimeoutMs, o.Start, o.End, o.End-o.Start, o.LockHeld, o.Panic))
		}
		for j, e := range evs {
			out.Log = append(out.Log, fmt.Sprintf("event %d: %s planned at %v, executed=%v at %v", j, p.Events[j].Kind, time.Duration(p.Events[j].AtUs)*unit, e.Done, e.At))
		}
	}
	out.Sample = map[string]interface{}{"plan": p, "observed": fmt.Sprint(obs)}
	out.NonTrivial = len(p.Events) > 0 || len(p.Calls) > 1
	fail := func(oracle, facts, msg string) {
		if out.Violation == nil {
			out.Violation = &harness.Violation{Oracle: oracle, Key: oracle + facts, Msg: msg}
		}
	}
	if stuck != "" {
		fail("wt.stuck", "", "the bubble did not drain (a goroutine stayed blocked): "+stuck)
		return out
	}
	// an event at exactly the instant a call starts or its timeout expires is
	// ordered by the Go runtime, not by the plan: such a run decides nothing
	for i, o := range obs {
		for j, e := range evs {
			if !e.Done {
				continue
			}
			T := time.Duration(p.Calls[i].TimeoutMs) * time.Millisecond
			if e.At == o.Start || (p.Calls[i].TimeoutMs < 1<<40 && e.At == o.Start+T) {
				out.Inconclusive = "tie"
				_ = j
				return out
			}
		}
	}
	// reference behaviour: an ideal timed wait on a FIFO condition variable
	type qent struct {
		call int // -1: plain waiter
	}
	var queue []qent
	earlierTimeout := false
	ei := 0
	for i, o := range obs {
		if o.Panic != "" {
			fail("wt.panic", "", fmt.Sprintf("call %d WaitTimeout(%d ms) panicked: %s", i, p.Calls[i].TimeoutMs, o.Panic))
			return out
		}
		if !o.LockHeld {
			fail("wt.lock-not-held", "", fmt.Sprintf("call %d WaitTimeout(%d ms) returned without holding the caller's lock (TryLock succeeded)", i, p.Calls[i].TimeoutMs))
			return out
		}
		// events strictly before this call starts act on the queue as it was
		for ; ei < len(evs) && evs[ei].Done && evs[ei].At < o.Start; ei++ {
			switch p.Events[ei].Kind {
			case "signal":
				if len(queue) > 0 {
					queue = queue[1:]
				}
			case "broadcast":
				queue = nil
			case "waiter":
				queue = append(queue, qent{call: -1})
			}
		}
		queue = append(queue, qent{call: i})
		T := time.Duration(0)
		bounded := p.Calls[i].TimeoutMs < 1<<40
		if bounded {
			T = time.Duration(p.Calls[i].TimeoutMs) * time.Millisecond
		}
		// when should it wake at the latest?
		wake := time.Duration(-1)
		wakeKind := ""
		for k := ei; k < len(evs) && evs[k].Done; k++ {
			at := evs[k].At
			if bounded && at >= o.Start+T {
				break
			}
			if wake >= 0 {
				break
			}
			switch p.Events[k].Kind {
			case "signal":
				if len(queue) > 0 {
					if queue[0].call == i {
						wake, wakeKind = at, "signal"
					}
					queue = queue[1:]
				}
			case "broadcast":
				for _, q := range queue {
					if q.call == i {
						wake, wakeKind = at, "broadcast"
					}
				}
				queue = nil
			case "waiter":
				queue = append(queue, qent{call: -1})
			}
			ei = k + 1
		}
		elapsed := o.End - o.Start
		switch {
		case wake >= 0:
			out.Probes["woken_by_"+wakeKind]++
			if o.End > wake+eps {
				facts := ""
				if earlierTimeout && wakeKind == "signal" {
					facts = "/after-earlier-timeout"
				}
				fail("wt.late-"+wakeKind, facts, fmt.Sprintf("call %d WaitTimeout(%d ms) started at %v; a %s reached it at %v, but it returned at %v (%v later); earlier timed-out call on this cond: %v", i, p.Calls[i].TimeoutMs, o.Start, wakeKind, wake, o.End, o.End-wake, earlierTimeout))
				return out
			}
		case bounded:
			out.Probes["timed_out"]++
			if elapsed > T+eps {
				fail("wt.late-timeout", "", fmt.Sprintf("call %d WaitTimeout(%d ms) returned after %v", i, p.Calls[i].TimeoutMs, elapsed))
				return out
			}
			// ideal semantics: a timed-out waiter leaves the queue
			for qi, q := range queue {
				if q.call == i {
					queue = append(queue[:qi], queue[qi+1:]...)
					break
				}
			}
			earlierTimeout = true
		}
	}
	return out
}

func auxAssertions() *harness.Violation {
	// Auxiliary, non-simulation assertions for the three pure clauses of C16
	// (not part of any exploration count).
	rng := simrt.NewRand(42)
	vals := []uint64{0, 1, 9, 10, 99, 100, 1<<32 - 1, 1 << 32, 1<<63 - 1, 1 << 63, ^uint64(0)}
	for i := 0; i < 200; i++ {
		vals = append(vals, rng.Uint64()>>uint(rng.Intn(64)))
	}
	seen := map[string]uint64{}
	for _, v := range vals {
		s := machine.UInt64ToString(v)
		ok := len(s) > 0 && (s == "0" || s[0] != '0')
		var back uint64
		for _, ch := range s {
			if ch < '0' || ch > '9' {
				ok = false
				break
			}
			back = back*10 + uint64(ch-'0')
		}
		if !ok || back != v {
			return &harness.Violation{Oracle: "aux.tostring", Key: "aux.tostring", Msg: fmt.Sprintf("UInt64ToString(%d) = %q is not the canonical decimal rendering", v, s)}
		}
		if w, dup := seen[s]; dup && w != v {
			return &harness.Violation{Oracle: "aux.tostring", Key: "aux.tostring", Msg: fmt.Sprintf("UInt64ToString is not injective: %d and %d both give %q", v, w, s)}
		}
		seen[s] = v
	}
	m1 := map[uint64]string{1: "a", 2: "b", 3: "c"}
	machine.MapClear(m1)
	m1[7] = "x"
	m2 := map[string][]byte{"k": {1}, "": nil}
	machine.MapClear(m2)
	type key struct{ a, b uint64 }
	m3 := map[key]bool{{1, 2}: true}
	machine.MapClear(m3)
	m0 := map[uint64]uint64{}
	machine.MapClear(m0)
	if len(m1) != 1 || m1[7] != "x" || len(m2) != 0 || len(m3) != 0 || len(m0) != 0 {
		return &harness.Violation{Oracle: "aux.mapclear", Key: "aux.mapclear", Msg: "MapClear did not leave the map empty and usable"}
	}
	pan := func(f func()) (p bool) {
		defer func() {
			if recover() != nil {
				p = true
			}
		}()
		f()
		return
	}
	if pan(func() { machine.Assume(true) }) || !pan(func() { machine.Assume(false) }) {
		return &harness.Violation{Oracle: "aux.assume", Key: "aux.assume", Msg: "Assume must panic exactly when its argument is false"}
	}
	if pan(func() { machine.Assert(true) }) || !pan(func() { machine.Assert(false) }) {
		return &harness.Violation{Oracle: "aux.assert", Key: "aux.assert", Msg: "Assert must panic exactly when its argument is false"}
	}
	return nil
}

func TestDriver(t *testing.T) {
	args := os.Getenv("VERIF_DRV_ARGS")
	if args == "" {
		t.Skip("driver binary: run through ./check")
	}
	theT = t
	harness.MainArgs(strings.Split(args, "\x1f"), map[string]harness.Check{"C16": c16{}})
}

// ---- perturb batch --------------------------------------------------------------------
//
// The deterministic batch keeps every event at its own simulated instant, so it
// cannot reach interleavings *inside* one instant: a signaller that is already
// queued on the mutex when WaitTimeout is entered, a Broadcast at the very
// instant the timer fires, a zero timeout racing the start of a helper
// goroutine. Here events deliberately tie with call starts and expiries, and
// the runtime's goroutine choice is nudged by runtime.Gosched at the yield
// points the rewriter spliced into machine/prims.go. Order is recovered from
// stamps taken while holding the mutex, so every outcome is judged soundly;
// but which outcome occurs is the Go runtime's choice (goroutine wake-up order,
// select among ready cases), so a replay re-runs the plan's repetitions and
// reproduces with high probability, not with certainty.

func genPerturb(rng *simrt.Rand) WTPlan {
	p := WTPlan{Batch: "perturb", ScriptSeed: rng.Uint64(), Reps: 12}
	n := 1 + rng.Intn(2)
	at := int64(0)
	var starts, expiries []int64
	for i := 0; i < n; i++ {
		c := Call{TimeoutMs: []uint64{0, 0, 1, 2, 10}[rng.Intn(5)], GapUs: int64(rng.Pick(0, 16, 8000))}
		if i == 0 {
			c.GapUs = int64(rng.Pick(0, 0, 16))
		}
		at += c.GapUs
		starts = append(starts, at)
		at += int64(c.TimeoutMs) * 16000
		expiries = append(expiries, at)
		p.Calls = append(p.Calls, c)
	}
	ne := 1 + rng.Intn(3)
	for j := 0; j < ne; j++ {
		ci := rng.Intn(n)
		var t int64
		switch rng.Intn(5) {
		case 0, 1:
			t = starts[ci] // exactly when the call is entered (after its gap)
		case 2, 3:
			t = expiries[ci] // exactly when the timer fires
		default:
			t = (starts[ci] + expiries[ci]) / 2
		}
		p.Events = append(p.Events, Event{AtUs: t, Kind: []string{"signal", "broadcast", "broadcast", "waiter"}[rng.Intn(4)]})
	}
	sort.Slice(p.Events, func(i, j int) bool { return p.Events[i].AtUs < p.Events[j].AtUs })
	return p
}

type stampedEv struct {
	kind  string // entry, exit, signal, broadcast, waiter
	call  int
	stamp int64
	at    time.Duration
}

func execPerturb(p *WTPlan, pj []byte, keepLog bool) harness.RunOut {
	out := harness.RunOut{Probes: map[string]int{"batch_perturb": 1}, Faults: map[string]int{}, Fingerprint: simrt.HashString(string(pj))}
	out.NonTrivial = true
	out.Sample = map[string]interface{}{"plan": p}
	reps := p.Reps
	if reps <= 0 {
		reps = 1
	}
	for rep := 0; rep < reps; rep++ {
		rng := simrt.NewRand(simrt.Mix(p.ScriptSeed, uint64(rep)))
		script := make([]uint8, 48)
		if rep > 0 {
			for i := range script {
				if rng.Chance(1, 3) {
					script[i] = uint8(1 + rng.Intn(3))
				}
			}
		}
		if daemonsLeft {
			break // the implementation's daemons are tied to the first bubble
		}
		v, log := perturbOnce(p, script, 10*time.Second)
		if v != nil && v.Oracle == "wt.watchdog" {
			// No progress for 10 s of REAL time. A loaded machine can do that to
			// a correct implementation; a goroutine blocked for ever on the mutex
			// (which synctest cannot see) does it every time. Ask again with a
			// limit that only the second explanation reaches.
			out.Probes["perturb_watchdog_retries"]++
			out.Tainted, out.Restart = true, true // the first attempt's goroutines are still there
			v, log = perturbOnce(p, script, 120*time.Second)
			if v != nil && v.Oracle == "wt.watchdog" {
				v.Oracle, v.Key = "wt.stuck", "wt.stuck/perturb"
			}
		}
		out.Probes["perturb_bubbles"]++
		if keepLog {
			out.Log = append(out.Log, fmt.Sprintf("-- repetition %d", rep))
			out.Log = append(out.Log, log...)
		}
		if v != nil {
			v.Msg = fmt.Sprintf("(repetition %d of %d; the Go runtime chooses among goroutines that are runnable at the same instant, so this plan reproduces with high probability, not certainty) %s", rep, reps, v.Msg)
			out.Violation = v
			return out
		}
	}
	return out
}

func perturbOnce(p *WTPlan, script []uint8, watchdog time.Duration) (*harness.Violation, []string) {
	var log []string
	var mu sync.Mutex
	var evMu sync.Mutex // protects evs (never held while blocking)
	var evs []stampedEv
	stamp := int64(0)
	add := func(kind string, call int, at time.Duration) {
		evMu.Lock()
		stamp++
		evs = append(evs, stampedEv{kind, call, stamp, at})
		evMu.Unlock()
	}
	type res struct {
		stuck string
	}
	done := make(chan res, 1)
	lockHeld := make([]bool, len(p.Calls))
	panics := make([]string, len(p.Calls))
	go func() {
		var r res
		defer func() {
			if x := recover(); x != nil {
				r.stuck = bubblePanic(fmt.Sprint(x))
			}
			done <- r
		}()
		freshBubble()
		synctest.Test(theT, func(t *testing.T) {
			cond := sync.NewCond(&mu)
			t0 := time.Now()
			var wg sync.WaitGroup
			finished := false
			for _, e := range p.Events {
				e := e
				wg.Add(1)
				go func() {
					defer wg.Done()
					time.Sleep(time.Duration(e.AtUs) * unit)
					mu.Lock()
					if finished {
						mu.Unlock()
						return
					}
					add(e.Kind, -1, time.Since(t0)) // stamped while holding mu
					switch e.Kind {
					case "signal":
						cond.Signal()
					case "broadcast":
						cond.Broadcast()
					case "waiter":
						cond.Wait()
					}
					mu.Unlock()
				}()
			}
			mu.Lock()
			for i, c := range p.Calls {
				if c.GapUs > 0 {
					mu.Unlock()
					time.Sleep(time.Duration(c.GapUs) * unit)
					mu.Lock()
				}
				add("entry", i, time.Since(t0))
				synyield.Install(script)
				func() {
					defer func() {
						if r := recover(); r != nil {
							panics[i] = fmt.Sprint(r)
						}
					}()
					machine.WaitTimeout(cond, c.TimeoutMs)
				}()
				synyield.Install(nil)
				if mu.TryLock() {
					lockHeld[i] = false
				} else {
					lockHeld[i] = true
				}
				add("exit", i, time.Since(t0))
				if panics[i] != "" {
					break
				}
			}
			finished = true
			mu.Unlock()
			for k := 0; k < 8; k++ {
				mu.Lock()
				cond.Broadcast()
				mu.Unlock()
				synctest.Wait()
			}
			wg.Wait()
		})
	}()
	var r res
	select {
	case r = <-done:
	case <-time.After(watchdog):
		synyield.Install(nil)
		return &harness.Violation{Oracle: "wt.watchdog", Key: "wt.watchdog", Msg: fmt.Sprintf("WaitTimeout did not return: the bubble made no progress for %v of real time, twice (a goroutine is blocked on the mutex for ever); plan %+v", watchdog, *p)}, log
	}
	evMu.Lock()
	defer evMu.Unlock()
	for _, e := range evs {
		log = append(log, fmt.Sprintf("stamp %d: %s call=%d at %v", e.stamp, e.kind, e.call, e.at))
	}
	fail := func(oracle, msg string) *harness.Violation {
		return &harness.Violation{Oracle: oracle, Key: oracle + "/perturb", Msg: msg}
	}
	if r.stuck != "" {
		return fail("wt.stuck", "the bubble did not drain: "+r.stuck), log
	}
	for i := range p.Calls {
		if panics[i] != "" {
			return fail("wt.panic", fmt.Sprintf("call %d WaitTimeout(%d ms) panicked: %s", i, p.Calls[i].TimeoutMs, panics[i])), log
		}
	}
	// reference: ideal timed wait on a FIFO condition variable, events ordered
	// by their stamps (all taken while holding the mutex)
	type qent struct{ call int }
	var queue []qent
	cur := -1
	var entryAt, wakeAt time.Duration
	woken := ""
	earlierTimeout := false
	for _, e := range evs {
		switch e.kind {
		case "entry":
			cur, entryAt, woken = e.call, e.at, ""
			queue = append(queue, qent{e.call})
		case "signal":
			if len(queue) > 0 {
				if queue[0].call == cur && cur >= 0 && woken == "" {
					woken, wakeAt = "signal", e.at
				}
				queue = queue[1:]
			}
		case "broadcast":
			for _, q := range queue {
				if q.call == cur && cur >= 0 && woken == "" {
					woken, wakeAt = "broadcast", e.at
				}
			}
			queue = nil
		case "waiter":
			queue = append(queue, qent{-1})
		case "exit":
			i := e.call
			if !lockHeld[i] {
				return fail("wt.lock-not-held", fmt.Sprintf("call %d WaitTimeout(%d ms) returned without holding the caller's lock (TryLock succeeded)", i, p.Calls[i].TimeoutMs)), log
			}
			T := time.Duration(p.Calls[i].TimeoutMs) * time.Millisecond
			switch {
			case woken != "" && e.at > wakeAt+eps:
				if earlierTimeout && woken == "signal" {
					v := fail("wt.late-signal", fmt.Sprintf("call %d WaitTimeout(%d ms) entered at %v; a signal reached it at %v, yet it returned at %v; an earlier call on this cond had timed out", i, p.Calls[i].TimeoutMs, entryAt, wakeAt, e.at))
					v.Key = "wt.late-signal/after-earlier-timeout"
					return v, log
				}
				return fail("wt.late-"+woken, fmt.Sprintf("call %d WaitTimeout(%d ms) entered at %v; a %s took the lock after the call was entered (stamp order) at %v, yet the call returned at %v", i, p.Calls[i].TimeoutMs, entryAt, woken, wakeAt, e.at)), log
			case woken == "" && e.at > entryAt+T+eps:
				return fail("wt.late-timeout", fmt.Sprintf("call %d WaitTimeout(%d ms) entered at %v returned at %v", i, p.Calls[i].TimeoutMs, entryAt, e.at)), log
			}
			if woken == "" {
				earlierTimeout = true
			}
			for qi, q := range queue {
				if q.call == i {
					queue = append(queue[:qi], queue[qi+1:]...)
					break
				}
			}
			cur = -1
		}
	}
	return nil, log
}
