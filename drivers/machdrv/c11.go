package main

import (
	"encoding/json"
	"fmt"

	"github.com/goose-lang/goose/machine/disk"

	"verif/simsync"

	"verif/harness"
	"verif/model"
	"verif/simrt"
	"verif/simunix"
)

// C11 — disk contents persist across reopen; I/O failures are never silent.

type c11 struct{}

func (c11) ID() string                                  { return "C11" }
func (c11) Strategy(rng *simrt.Rand) simrt.Strategy     { return pickStrategy(rng, 40) }
func (c11) Shrink(pj json.RawMessage) []json.RawMessage { return shrinkDPlan(pj) }

func (c11) Gen(rng *simrt.Rand, tier string, run int) interface{} {
	p := DPlan{System: "file", PriorLen: -1}
	n := rng.PickU64(1, 2, 3, 5, 8, 16)
	if run%8 == 7 {
		// (e) concurrent readers while a pread fails: a reader that shares
		// another's system call (or its buffer) must not return as if it had read
		p.Batch = "concread"
		nb := uint64(1 + rng.Intn(2))
		p.PriorLen = int64(nb) * model.BlockSize
		nr := 2 + rng.Intn(3)
		total := 0
		for c := 0; c < nr; c++ {
			var ops []SeqOp
			for k := 0; k < 1+rng.Intn(3); k++ {
				ops = append(ops, SeqOp{Kind: rng.PickStr("read", "readto"), Addr: uint64(rng.Intn(int(nb)))})
			}
			total += len(ops)
			p.Rounds = append(p.Rounds, Round{N: nb, Ops: ops})
		}
		f := simunix.Fault{Kind: "errno", Errno: int(simunix.EIO), Op: "pread", At: rng.Intn(total), Sticky: rng.Chance(1, 3)}
		if rng.Chance(1, 3) {
			f.Kind, f.Errno, f.Short = "short", 0, rng.Pick(0, 512, 4095, 4096, 8192)
		}
		p.Faults = []simunix.Fault{f}
		return p
	}
	if run%4 == 3 {
		// (d) concurrent clients, a failing flush, then a power crash
		p.Batch = "concflush"
		p.Ordered = rng.Chance(2, 3) // slow flushes: other clients pile up behind one in flight
		nc := 3 + rng.Intn(3)
		p.PriorLen = int64(nc) * model.BlockSize
		for c := 0; c < nc; c++ {
			var ops []SeqOp
			for k := 0; k < 1+rng.Intn(2); k++ {
				ops = append(ops, SeqOp{Kind: "write", Addr: uint64(c), ID: uint64(0x4000 + 0x100*c + k + 1)}, SeqOp{Kind: "barrier"})
			}
			p.Rounds = append(p.Rounds, Round{N: uint64(nc), Ops: ops})
		}
		nf := 0
		for _, r := range p.Rounds {
			nf += len(r.Ops) / 2
		}
		p.Faults = []simunix.Fault{{Kind: "errno", Errno: int(simunix.EIO), Op: "fsync", At: rng.Intn(nf), Sticky: rng.Chance(2, 3)}}
		if rng.Chance(1, 2) {
			p.Faults[0].At = rng.Intn(3) // an early flush: more callers are still queued behind it
		}
		return p
	}
	switch run % 3 {
	case 0: // (a) close/reopen with prior images of every interesting length
		p.Batch = "reopen"
		nb := int64(n)
		p.PriorLen = []int64{-1, 0, 1, nb, nb*model.BlockSize - 1, 4095, 4096, 4097, nb * model.BlockSize, nb*model.BlockSize + 1, (nb + 3) * model.BlockSize, int64(rng.Intn(int(nb+4) * model.BlockSize))}[rng.Intn(12)]
		p.Real = run%15 == 0
		rounds := 1 + rng.Intn(4)
		for i := 0; i < rounds; i++ {
			ni := n
			if i > 0 && rng.Chance(1, 2) {
				ni = rng.PickU64(1, 2, 3, 5, 8, 16, n+1, n-1+1)
			}
			p.Rounds = append(p.Rounds, Round{N: ni, Ops: genSeqOps(rng, ni, rng.Intn(10), uint64(0x1000*(i+1)), false)})
		}
	case 1: // (b) power crash between two system calls, then reopen
		p.Batch = "crash"
		p.PriorLen = int64(n) * model.BlockSize
		p.Ordered = rng.Chance(1, 2)
		ops := genSeqOps(rng, n, 2+rng.Intn(14), 0x2000, false)
		// make barriers frequent enough to matter
		for i := range ops {
			if ops[i].Kind == "size" || (ops[i].Kind == "read" && rng.Chance(1, 2)) {
				ops[i] = SeqOp{Kind: "barrier"}
			}
		}
		p.Rounds = []Round{{N: n, Ops: ops}, {N: n}}
		for i := 0; i < 48; i++ {
			p.CrashChoices = append(p.CrashChoices, rng.Intn(1<<16))
		}
	default: // (c) single-fault enumeration
		p.Batch = "fault"
		nb := int64(n)
		// every prior-image class: a failing ftruncate/fstat must not turn into
		// a disk of the wrong size or with altered retained blocks
		p.PriorLen = []int64{-1, -1, nb * model.BlockSize, nb * model.BlockSize, 0, nb, 4097, nb*model.BlockSize - 1, nb*model.BlockSize + 1, (nb + 3) * model.BlockSize}[rng.Intn(10)]
		ops := genSeqOps(rng, n, 1+rng.Intn(10), 0x3000, false)
		p.Rounds = []Round{{N: n, Ops: ops}}
	}
	return p
}

var faultMenu = map[string][]simunix.Fault{
	"openat":    {{Kind: "errno", Errno: int(simunix.EACCES)}, {Kind: "errno", Errno: int(simunix.EMFILE)}},
	"fstat":     {{Kind: "errno", Errno: int(simunix.EIO)}},
	"ftruncate": {{Kind: "errno", Errno: int(simunix.EIO)}, {Kind: "errno", Errno: int(simunix.ENOSPC)}},
	"pread":     {{Kind: "errno", Errno: int(simunix.EIO)}, {Kind: "short", Short: 0}, {Kind: "short", Short: 512}, {Kind: "short", Short: 4096}, {Kind: "short", Short: 8192}},
	"pwrite":    {{Kind: "errno", Errno: int(simunix.EIO)}, {Kind: "errno", Errno: int(simunix.ENOSPC)}, {Kind: "short", Short: 512}, {Kind: "short", Short: 0}, {Kind: "short", Short: 4096}},
	"fsync":     {{Kind: "errno", Errno: int(simunix.EIO)}, {Kind: "errno", Errno: int(simunix.EINTR)}},
	"close":     {{Kind: "errno", Errno: int(simunix.EIO)}},
	"fallocate": {{Kind: "errno", Errno: int(simunix.EIO)}, {Kind: "errno", Errno: int(simunix.ENOSPC)}, {Kind: "errno", Errno: int(simunix.EOPNOTSUPP)}},
	"fdatasync": {{Kind: "errno", Errno: int(simunix.EIO)}, {Kind: "errno", Errno: int(simunix.EINTR)}},
	"read":      {{Kind: "errno", Errno: int(simunix.EIO)}, {Kind: "short", Short: 512}},
	"write":     {{Kind: "errno", Errno: int(simunix.EIO)}, {Kind: "errno", Errno: int(simunix.ENOSPC)}, {Kind: "short", Short: 512}},
}

// menuFor: system calls the shipped code does not make get a default menu, so
// that a tree which starts using another call has its failures injected too.
func menuFor(op string) []simunix.Fault {
	if m, ok := faultMenu[op]; ok {
		return m
	}
	return []simunix.Fault{{Kind: "errno", Errno: int(simunix.EIO)}}
}

func (c11) Expand(pj json.RawMessage) []json.RawMessage {
	var p DPlan
	json.Unmarshal(pj, &p)
	if p.Batch != "crash" && p.Batch != "fault" {
		return nil
	}
	_ = pj
	// pilot: fault-free run of round 0 to learn the system calls it makes
	pilot := p
	pilot.Faults = nil
	pilot.Rounds = p.Rounds[:1]
	pr := runSeq(&pilot, "file", true, "filedisk")
	if pr.violation != nil {
		// the fault-free run already fails: report that plan as it is
		b, _ := json.Marshal(pilot)
		return []json.RawMessage{b}
	}
	var out []json.RawMessage
	add := func(f simunix.Fault) {
		q := p
		q.Faults = []simunix.Fault{f}
		b, _ := json.Marshal(q)
		out = append(out, b)
	}
	if p.Batch == "crash" {
		// every crash point: before system call i, for every call the round
		// makes; once with the plan's seeded survivor choices and once with the
		// most adversarial ones (metadata kept, every unsynced write lost)
		addC := func(fs []simunix.Fault, choices []int) {
			q := p
			q.Faults = fs
			q.CrashChoices = choices
			b, _ := json.Marshal(q)
			out = append(out, b)
		}
		n := len(pr.trace)
		for i := 0; i < n; i++ {
			addC([]simunix.Fault{{At: i, Kind: "crash"}}, p.CrashChoices)
			addC([]simunix.Fault{{At: i, Kind: "crash"}}, nil)
		}
		// a failed flush followed by a crash: a Barrier that panicked does not
		// count, a later Barrier that returns must still have flushed
		for _, rec := range pr.trace {
			if rec.Op != "fsync" {
				continue
			}
			later := n - rec.N - 1
			step := 1
			if later > 8 {
				step = (later + 7) / 8
			}
			for i := rec.N + 1; i < n; i += step {
				addC([]simunix.Fault{{At: rec.N, Kind: "errno", Errno: int(simunix.EIO)}, {At: i, Kind: "crash"}}, nil)
			}
		}
		return out
	}
	for _, rec := range pr.trace {
		for _, f := range menuFor(rec.Op) {
			f.At = rec.N
			add(f)
		}
	}
	// a device that keeps transferring less than asked: from some transfer on,
	// EVERY pwrite (or pread) is short -- a retry loop must give up loudly, not
	// return after its last attempt as if it had succeeded
	for _, op := range []string{"pwrite", "pread"} {
		n := 0
		for _, rec := range pr.trace {
			if rec.Op == op {
				n++
			}
		}
		for k := 0; k < n && k < 3; k++ {
			for _, short := range []int{1000, 0} {
				add(simunix.Fault{Kind: "short", Short: short, Op: op, At: k, Sticky: true})
			}
		}
	}
	// sampled double faults (seeded by the plan): two different system calls
	if n := len(pr.trace); n >= 2 {
		rng := simrt.NewRand(planHash(pj, "double-fault"))
		for k := 0; k < 6; k++ {
			a, b := pr.trace[rng.Intn(n)], pr.trace[rng.Intn(n)]
			ma, mb := menuFor(a.Op), menuFor(b.Op)
			if a.N == b.N || len(ma) == 0 || len(mb) == 0 {
				continue
			}
			fa, fb := ma[rng.Intn(len(ma))], mb[rng.Intn(len(mb))]
			fa.At, fb.At = a.N, b.N
			q := p
			q.Faults = []simunix.Fault{fa, fb}
			bj, _ := json.Marshal(q)
			out = append(out, bj)
		}
	}
	return out
}

func (c11) Exec(pj json.RawMessage, tape *simrt.Tape, keepLog bool) harness.RunOut {
	var p DPlan
	if err := json.Unmarshal(pj, &p); err != nil {
		return harness.RunOut{Infra: err.Error()}
	}
	if p.Batch == "concread" {
		return execConcRead(&p, tape, keepLog)
	}
	if p.Batch == "concflush" {
		return execConcFlush(&p, tape, keepLog)
	}
	out := harness.RunOut{Fingerprint: planHash(pj, ""), Probes: map[string]int{}, Faults: map[string]int{}}
	r := runSeq(&p, "file", keepLog, "filedisk")
	out.Events = r.events
	for k, v := range r.probes {
		out.Probes[k] += v
	}
	for k, v := range r.faults {
		out.Faults[k] += v
	}
	out.Probes["batch_"+p.Batch]++
	if p.Real {
		out.Probes["real_kernel_runs"]++
	}
	if keepLog {
		out.Log = r.log
	}
	switch p.Batch {
	case "reopen":
		out.NonTrivial = len(p.Rounds) > 1 || p.PriorLen >= 0
	default:
		out.NonTrivial = r.faultHit
	}
	out.Violation = r.violation
	out.Sample = map[string]interface{}{"plan": p, "syscalls": r.syscalls}
	return out
}

// execConcFlush: several clients write their own block and call Barrier
// concurrently while one flush (or every flush from some point on) fails; then
// the power fails with every unsynced write lost. A client whose Barrier
// returned normally must find the value it had written before that Barrier (or
// a later one of its own) after reopening. In this plan Rounds[c] is client c's
// operation list (the disk is opened once with Rounds[0].N blocks).
// execConcRead: readers of a prior image run concurrently while one (or every
// later) pread fails or comes back short. A Read/ReadTo that returns normally
// must have produced the block.
func execConcRead(p *DPlan, tape *simrt.Tape, keepLog bool) harness.RunOut {
	s := simrt.New(simrt.Config{DaemonsOK: true, Tape: tape, KeepLog: keepLog})
	k := simunix.NewKernel(simunix.Config{})
	k.WriteFile("/disk.img", priorImage(p.PriorLen))
	simunix.Attach(s, k)
	n := p.Rounds[0].N
	var openErr error
	var bad string
	res := s.Run(func() {
		d, err := disk.NewFileDisk("/disk.img", n)
		if err != nil {
			openErr = err
			return
		}
		k.SetFaults(p.Faults) // count preads from here
		var wg simsync.WaitGroup
		wg.Add(len(p.Rounds))
		for ci := range p.Rounds {
			ci := ci
			simrt.GoNamed(fmt.Sprintf("r%d", ci), func() {
				defer wg.Done()
				for oi, op := range p.Rounds[ci].Ops {
					var b []byte
					pan, _ := attempt(func() {
						if op.Kind == "read" {
							b = d.Read(op.Addr)
						} else {
							b = make([]byte, model.BlockSize)
							for i := range b {
								b[i] = 0xA5
							}
							d.ReadTo(op.Addr, b)
						}
					})
					if pan {
						continue
					}
					if ok, why := (expBlock{known: true, prior: true}).matches(b, op.Addr); !ok && bad == "" {
						bad = fmt.Sprintf("reader %d op %d: %s(%d) returned normally, but not with the block: %s", ci, oi, op.Kind, op.Addr, why)
					}
				}
			})
		}
		wg.Wait()
	})
	out := harness.RunOut{Fingerprint: res.Fingerprint, Events: res.Events, Probes: s.Probes, Faults: s.Faults, Sched: tape.Sched, Aux: tape.Aux, Log: res.Log}
	out.Probes["batch_concread"]++
	out.Sample = map[string]interface{}{"plan": p}
	if openErr != nil {
		out.Violation = viol("filedisk.open", "NewFileDisk failed without a fault: "+openErr.Error())
		return out
	}
	switch res.Outcome {
	case simrt.Deadlock:
		out.Violation = viol("filedisk.conc.deadlock", "a Read call never returns: "+res.Detail)
		return out
	case simrt.StepCap:
		out.Inconclusive = "inconclusive-steps"
		return out
	}
	for kk, v := range s.Faults {
		if v > 0 && len(kk) > 0 {
			out.NonTrivial = true
		}
	}
	if bad != "" {
		out.Violation = &harness.Violation{Oracle: "filedisk.fault.silent", Key: "filedisk.fault.silent/pread/concurrent",
			Msg: bad + fmt.Sprintf(" (fault: %+v)", p.Faults)}
	}
	return out
}

func execConcFlush(p *DPlan, tape *simrt.Tape, keepLog bool) harness.RunOut {
	s := simrt.New(simrt.Config{DaemonsOK: true, Tape: tape, KeepLog: keepLog})
	kc := simunix.Config{Trace: true}
	if p.Ordered { // reused as "slow flush" switch for this batch
		kc.SlowFsyncNs = 1_000_000
	}
	k := simunix.NewKernel(kc)
	k.WriteFile("/disk.img", priorImage(p.PriorLen))
	simunix.Attach(s, k)
	n := p.Rounds[0].N
	type outcome struct {
		id        uint64
		barrierOK bool
		// system-call counts when the Write had returned and when the Barrier returned
		wroteAt, barrierAt int
	}
	results := make([][]outcome, len(p.Rounds))
	var openErr error
	res := s.Run(func() {
		d, err := disk.NewFileDisk("/disk.img", n)
		if err != nil {
			openErr = err
			return
		}
		k.SetFaults(p.Faults) // count fsyncs from here
		var wg simsync.WaitGroup
		wg.Add(len(p.Rounds))
		for ci := range p.Rounds {
			ci := ci
			simrt.GoNamed(fmt.Sprintf("c%d", ci), func() {
				defer wg.Done()
				ops := p.Rounds[ci].Ops
				for i := 0; i+1 < len(ops); i += 2 {
					w := ops[i]
					pan, _ := attempt(func() { d.Write(w.Addr, model.MkBlock(w.ID, model.BlockSize)) })
					if pan {
						return
					}
					wroteAt := k.Syscalls()
					pan, _ = attempt(d.Barrier)
					results[ci] = append(results[ci], outcome{w.ID, !pan, wroteAt, k.Syscalls()})
				}
			})
		}
		wg.Wait()
	})
	out := harness.RunOut{Fingerprint: res.Fingerprint, Events: res.Events, Probes: s.Probes, Faults: s.Faults, Sched: tape.Sched, Aux: tape.Aux, Log: res.Log}
	out.Probes["batch_concflush"]++
	out.Sample = map[string]interface{}{"plan": p}
	if openErr != nil {
		out.Violation = viol("filedisk.open", "NewFileDisk failed without a fault: "+openErr.Error())
		return out
	}
	switch res.Outcome {
	case simrt.Deadlock:
		out.Violation = viol("filedisk.conc.deadlock", "a Write or Barrier call never returns: "+res.Detail)
		return out
	case simrt.StepCap:
		out.Inconclusive = "inconclusive-steps"
		return out
	}
	for kk, v := range s.Faults {
		if v > 0 && len(kk) > 0 {
			out.NonTrivial = true
		}
	}
	lost := append([]simunix.LostWrite(nil), k.Lost...)
	trace := append([]simunix.SysRec(nil), k.Trace...)
	anyBarrierPanicked := false
	for _, rs := range results {
		for _, r := range rs {
			if !r.barrierOK {
				anyBarrierPanicked = true
			}
		}
	}
	// power failure: metadata kept, every unsynced write lost (all-zero choices)
	k.SetFaults(nil)
	k.Crash(func(int) int { return 0 })
	got := make([]uint64, n)
	uniform := make([]bool, n)
	s.Run(func() {
		d, err := disk.NewFileDisk("/disk.img", n)
		if err != nil {
			openErr = err
			return
		}
		for a := uint64(0); a < n; a++ {
			b := d.Read(a)
			got[a], uniform[a], _ = model.BlockID(b)
		}
	})
	for ci, rs := range results {
		lastOK := -1
		for i, r := range rs {
			if r.barrierOK {
				lastOK = i
			}
		}
		if lastOK < 0 {
			continue
		}
		out.Probes["client_with_successful_barrier"]++
		allowed := map[uint64]bool{}
		for i := lastOK; i < len(rs); i++ {
			allowed[rs[i].id] = true
		}
		// later writes of this client whose Barrier was never reached
		ops := p.Rounds[ci].Ops
		for i := 2 * len(rs); i < len(ops); i += 2 {
			allowed[ops[i].ID] = true
		}
		a := uint64(ci)
		// a write that was dirty when ANOTHER client's fsync failed (and that
		// client's Barrier panicked) is gone from write-back: this client's
		// later, successful fsync cannot bring it back, and the loss has been
		// reported. Such a block is unconstrained.
		lostHere := false
		for _, lw := range lost {
			if lw.Off/model.BlockSize == int64(a) {
				lostHere = true
			}
		}
		// ... but only if, from where the implementation stands, this client's
		// data WAS flushed: some fsync that began after its Write had returned
		// came back without error before its Barrier returned (the kernel had
		// already reported the error to someone else). A Barrier that returns
		// on the strength of a flush that failed is not excused.
		flushedOK := false
		for _, rec := range trace {
			if (rec.Op == "fsync" || rec.Op == "fdatasync") && rec.Errno == 0 && rec.N >= rs[lastOK].wroteAt && rec.N < rs[lastOK].barrierAt {
				flushedOK = true
			}
		}
		if lostHere && anyBarrierPanicked && flushedOK {
			out.Probes["block_lost_by_another_clients_failed_fsync"]++
			continue
		}
		if !uniform[a] || !allowed[got[a]] {
			out.Violation = &harness.Violation{Oracle: "filedisk.crash.barrier-lost", Key: "filedisk.crash.barrier-lost/concurrent",
				Msg: fmt.Sprintf("client %d wrote %#x to block %d and its Barrier returned normally, but after a power failure the block holds %#x (uniform=%v); allowed: %v. Faults: %+v", ci, rs[lastOK].id, a, got[a], uniform[a], keys(allowed), p.Faults)}
			return out
		}
	}
	return out
}
