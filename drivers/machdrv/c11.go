package main

import (
	"encoding/json"

	"verif/harness"
	"verif/model"
	"verif/simrt"
	"verif/simunix"
)

// C11 — disk contents persist across reopen; I/O failures are never silent.

type c11 struct{}

func (c11) ID() string                                  { return "C11" }
func (c11) Strategy(rng *simrt.Rand) simrt.Strategy     { return simrt.Strategy{Kind: "seq"} }
func (c11) Shrink(pj json.RawMessage) []json.RawMessage { return shrinkDPlan(pj) }

func (c11) Gen(rng *simrt.Rand, tier string, run int) interface{} {
	p := DPlan{System: "file", PriorLen: -1}
	n := rng.PickU64(1, 2, 3, 5, 8, 16)
	switch run % 3 {
	case 0: // (a) close/reopen with prior images of every interesting length
		p.Batch = "reopen"
		nb := int64(n)
		p.PriorLen = []int64{-1, 0, 1, nb, nb*model.BlockSize - 1, 4095, 4096, 4097, nb * model.BlockSize, nb*model.BlockSize + 1, (nb + 3) * model.BlockSize, int64(rng.Intn(int(nb+4) * model.BlockSize))}[rng.Intn(12)]
		p.Real = run%15 == 0
		rounds := 1 + rng.Intn(4)
		for i := 0; i < rounds; i++ {
			ni := n
			if i > 0 && rng.Chance(1, 2) {
				ni = rng.PickU64(1, 2, 3, 5, 8, 16, n+1, n-1+1)
			}
			p.Rounds = append(p.Rounds, Round{N: ni, Ops: genSeqOps(rng, ni, rng.Intn(10), uint64(0x1000*(i+1)), false)})
		}
	case 1: // (b) power crash between two system calls, then reopen
		p.Batch = "crash"
		p.PriorLen = int64(n) * model.BlockSize
		p.Ordered = rng.Chance(1, 2)
		ops := genSeqOps(rng, n, 2+rng.Intn(14), 0x2000, false)
		// make barriers frequent enough to matter
		for i := range ops {
			if ops[i].Kind == "size" || (ops[i].Kind == "read" && rng.Chance(1, 2)) {
				ops[i] = SeqOp{Kind: "barrier"}
			}
		}
		p.Rounds = []Round{{N: n, Ops: ops}, {N: n}}
		for i := 0; i < 48; i++ {
			p.CrashChoices = append(p.CrashChoices, rng.Intn(1<<16))
		}
	default: // (c) single-fault enumeration
		p.Batch = "fault"
		nb := int64(n)
		// every prior-image class: a failing ftruncate/fstat must not turn into
		// a disk of the wrong size or with altered retained blocks
		p.PriorLen = []int64{-1, -1, nb * model.BlockSize, nb * model.BlockSize, 0, nb, 4097, nb*model.BlockSize - 1, nb*model.BlockSize + 1, (nb + 3) * model.BlockSize}[rng.Intn(10)]
		ops := genSeqOps(rng, n, 1+rng.Intn(10), 0x3000, false)
		p.Rounds = []Round{{N: n, Ops: ops}}
	}
	return p
}

var faultMenu = map[string][]simunix.Fault{
	"openat":    {{Kind: "errno", Errno: int(simunix.EACCES)}, {Kind: "errno", Errno: int(simunix.EMFILE)}},
	"fstat":     {{Kind: "errno", Errno: int(simunix.EIO)}},
	"ftruncate": {{Kind: "errno", Errno: int(simunix.EIO)}, {Kind: "errno", Errno: int(simunix.ENOSPC)}},
	"pread":     {{Kind: "errno", Errno: int(simunix.EIO)}, {Kind: "short", Short: 0}, {Kind: "short", Short: 512}},
	"pwrite":    {{Kind: "errno", Errno: int(simunix.EIO)}, {Kind: "errno", Errno: int(simunix.ENOSPC)}, {Kind: "short", Short: 512}, {Kind: "short", Short: 0}},
	"fsync":     {{Kind: "errno", Errno: int(simunix.EIO)}, {Kind: "errno", Errno: int(simunix.EINTR)}},
	"close":     {{Kind: "errno", Errno: int(simunix.EIO)}},
}

func (c11) Expand(pj json.RawMessage) []json.RawMessage {
	var p DPlan
	json.Unmarshal(pj, &p)
	if p.Batch != "crash" && p.Batch != "fault" {
		return nil
	}
	// pilot: fault-free run of round 0 to learn the system calls it makes
	pilot := p
	pilot.Faults = nil
	pilot.Rounds = p.Rounds[:1]
	pr := runSeq(&pilot, "file", true, "filedisk")
	if pr.violation != nil {
		// the fault-free run already fails: report that plan as it is
		b, _ := json.Marshal(pilot)
		return []json.RawMessage{b}
	}
	var out []json.RawMessage
	add := func(f simunix.Fault) {
		q := p
		q.Faults = []simunix.Fault{f}
		b, _ := json.Marshal(q)
		out = append(out, b)
	}
	if p.Batch == "crash" {
		// every crash point: before system call i, for every call the round
		// makes; once with the plan's seeded survivor choices and once with the
		// most adversarial ones (metadata kept, every unsynced write lost)
		addC := func(fs []simunix.Fault, choices []int) {
			q := p
			q.Faults = fs
			q.CrashChoices = choices
			b, _ := json.Marshal(q)
			out = append(out, b)
		}
		n := len(pr.trace)
		for i := 0; i < n; i++ {
			addC([]simunix.Fault{{At: i, Kind: "crash"}}, p.CrashChoices)
			addC([]simunix.Fault{{At: i, Kind: "crash"}}, nil)
		}
		// a failed flush followed by a crash: a Barrier that panicked does not
		// count, a later Barrier that returns must still have flushed
		for _, rec := range pr.trace {
			if rec.Op != "fsync" {
				continue
			}
			later := n - rec.N - 1
			step := 1
			if later > 8 {
				step = (later + 7) / 8
			}
			for i := rec.N + 1; i < n; i += step {
				addC([]simunix.Fault{{At: rec.N, Kind: "errno", Errno: int(simunix.EIO)}, {At: i, Kind: "crash"}}, nil)
			}
		}
		return out
	}
	for _, rec := range pr.trace {
		for _, f := range faultMenu[rec.Op] {
			f.At = rec.N
			add(f)
		}
	}
	// sampled double faults (seeded by the plan): two different system calls
	if n := len(pr.trace); n >= 2 {
		rng := simrt.NewRand(planHash(pj, "double-fault"))
		for k := 0; k < 6; k++ {
			a, b := pr.trace[rng.Intn(n)], pr.trace[rng.Intn(n)]
			ma, mb := faultMenu[a.Op], faultMenu[b.Op]
			if a.N == b.N || len(ma) == 0 || len(mb) == 0 {
				continue
			}
			fa, fb := ma[rng.Intn(len(ma))], mb[rng.Intn(len(mb))]
			fa.At, fb.At = a.N, b.N
			q := p
			q.Faults = []simunix.Fault{fa, fb}
			bj, _ := json.Marshal(q)
			out = append(out, bj)
		}
	}
	return out
}

func (c11) Exec(pj json.RawMessage, tape *simrt.Tape, keepLog bool) harness.RunOut {
	var p DPlan
	if err := json.Unmarshal(pj, &p); err != nil {
		return harness.RunOut{Infra: err.Error()}
	}
	out := harness.RunOut{Fingerprint: planHash(pj, ""), Probes: map[string]int{}, Faults: map[string]int{}}
	r := runSeq(&p, "file", keepLog, "filedisk")
	out.Events = r.events
	for k, v := range r.probes {
		out.Probes[k] += v
	}
	for k, v := range r.faults {
		out.Faults[k] += v
	}
	out.Probes["batch_"+p.Batch]++
	if p.Real {
		out.Probes["real_kernel_runs"]++
	}
	if keepLog {
		out.Log = r.log
	}
	switch p.Batch {
	case "reopen":
		out.NonTrivial = len(p.Rounds) > 1 || p.PriorLen >= 0
	default:
		out.NonTrivial = r.faultHit
	}
	out.Violation = r.violation
	out.Sample = map[string]interface{}{"plan": p, "syscalls": r.syscalls}
	return out
}
