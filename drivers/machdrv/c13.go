package main

import (
	"encoding/json"
	"fmt"
	"sort"
	"strings"

	"github.com/goose-lang/goose/machine/filesys"

	"verif/harness"
	"verif/model"
	"verif/simrt"
	"verif/simsync"
	"verif/simunix"
)

// C13 — AtomicCreate is all-or-nothing, durable-before-visible, interference-free.

type Creator struct {
	D   string `json:"d"`
	N   string `json:"n"`
	ID  uint64 `json:"id"`
	Len int    `json:"len"`
}

type ACPlan struct {
	Batch  string `json:"batch"` // crash, fault, conc
	System string `json:"system"`
	Dir    string `json:"dir"`
	Name   string `json:"name"`
	// prior state: OldLen<0 = name absent; TmpLen<0 = no leftover temp file
	OldLen int    `json:"old_len"`
	OldID  uint64 `json:"old_id,omitempty"`
	TmpLen int    `json:"tmp_len"`
	TmpID  uint64 `json:"tmp_id,omitempty"`
	// leftover temp files are planted both where the shipped code puts them
	// (root) and beside the destination, so the check does not depend on which
	DataID    uint64          `json:"data_id"`
	DataLen   int             `json:"data_len"`
	Data2Len  int             `json:"data2_len"`
	ZeroBlock bool            `json:"zero_block,omitempty"` // the data contains an aligned block of zeros
	TmpSame   bool            `json:"tmp_same,omitempty"`   // the leftover staging file holds exactly the data, unflushed
	Ordered   bool            `json:"ordered,omitempty"`
	MaxWrite  int             `json:"max_write,omitempty"`
	Faults    []simunix.Fault `json:"faults,omitempty"`
	Choices   []int           `json:"crash_choices,omitempty"`
	// conc
	Creators []Creator `json:"creators,omitempty"`
	Reads    int       `json:"reads,omitempty"`
	OldFiles []Creator `json:"old_files,omitempty"`
	// seq batch: a sequential history centred on AtomicCreate
	Seq *FsPlan `json:"seq,omitempty"`
}

type c13 struct{}

func (c13) ID() string { return "C13" }
func (c13) Strategy(rng *simrt.Rand) simrt.Strategy {
	return pickStrategy(rng, 80)
}

var acSizes = []int{0, 1, 100, 4096, 70000}

func (c13) Gen(rng *simrt.Rand, tier string, run int) interface{} {
	p := ACPlan{System: "dir", Dir: "d0", Name: rng.PickStr("x", "y.tmp", "z"), OldLen: -1, TmpLen: -1}
	p.DataID, p.DataLen = 0xD1, acSizes[rng.Intn(len(acSizes))]
	p.Data2Len = acSizes[rng.Intn(4)]
	p.ZeroBlock = p.DataLen >= 4096 && rng.Chance(1, 3)
	tmpSame := rng.Chance(1, 6)
	prior := func() {
		if rng.Chance(2, 3) {
			p.OldID, p.OldLen = 0x01D, rng.Pick(0, 5, 100, 5000)
		}
		if rng.Chance(1, 2) {
			// leftover of an interrupted earlier call: shorter, equal or longer than the new data
			p.TmpID = 0x7E
			switch rng.Intn(3) {
			case 0:
				p.TmpLen = p.DataLen / 2
			case 1:
				p.TmpLen = p.DataLen
			default:
				p.TmpLen = p.DataLen + rng.Pick(1, 26, 4096)
			}
		}
	}
	if run%8 == 7 {
		// (4) completed calls stay exact under later unrelated operations
		p.Batch = "seq"
		q := FsPlan{Batch: "seq"}
		q.Dirs, q.Ops = genFsSeq(rng, 14, true)
		p.Seq = &q
		return p
	}
	switch run % 4 {
	case 0, 1:
		p.Batch = "crash"
		prior()
		if tmpSame && p.DataLen > 0 {
			p.TmpSame, p.TmpLen = true, -1
		}
		p.Ordered = rng.Chance(1, 2)
		if rng.Chance(1, 2) {
			p.MaxWrite = rng.Pick(1, 7, 1000, 4096, 32768)
		}
		if p.MaxWrite > 0 && p.DataLen/p.MaxWrite > 40 {
			p.MaxWrite = p.DataLen/40 + 1
		}
		for i := 0; i < 40; i++ {
			p.Choices = append(p.Choices, rng.Intn(1<<16))
		}
	case 2:
		p.Batch = "fault"
		prior()
		if rng.Chance(1, 2) {
			p.MaxWrite = rng.Pick(7, 1000, 4096, 32768)
			if p.DataLen/p.MaxWrite > 20 {
				p.MaxWrite = p.DataLen/20 + 1
			}
		}
	default:
		p.Batch = "conc"
		if rng.Chance(1, 3) {
			p.System = "mem"
		}
		p.MaxWrite = rng.Pick(0, 0, 8, 64)
		dirs := []string{"d0", "d1"}
		names := []string{"x", "y"}
		// 0,1: independent; 2: same name different dirs; 3: same name same dir;
		// 4,5: independent, but with names that collide under plausible ways of
		// deriving a staging name (dir and name joined by a separator; the
		// staging suffix itself used as a destination name)
		rel := rng.Intn(6)
		switch rel {
		case 4:
			sep := rng.PickStr("-", "-", "_", "_", ".", ".", "", "", "~", "@", "#", ":", "+", "%", "=", ",")
			p.Creators = []Creator{{D: "d0", N: "a" + sep + "x"}, {D: "d0" + sep + "a", N: "x"}}
		case 5:
			p.Creators = []Creator{{D: "d0", N: "x"}, {D: rng.PickStr("d0", "d1"), N: "x.tmp"}}
			if rng.Chance(1, 2) {
				p.Creators[0], p.Creators[1] = p.Creators[1], p.Creators[0]
			}
		case 2:
			p.Creators = []Creator{{D: "d0", N: "x"}, {D: "d1", N: "x"}}
		case 3:
			p.Creators = []Creator{{D: "d0", N: "x"}, {D: "d0", N: "x"}}
			if rng.Chance(1, 3) {
				p.Creators = append(p.Creators, Creator{D: "d0", N: "x"})
			}
		default:
			// independent: distinct names (and any directories)
			for i, n := range []string{"x", "y", "w"}[:1+rng.Intn(3)] {
				_ = i
				p.Creators = append(p.Creators, Creator{D: dirs[rng.Intn(2)], N: n})
			}
		}
		_ = names
		for i := range p.Creators {
			p.Creators[i].ID = uint64(0xC0 + i)
			p.Creators[i].Len = rng.Pick(1, 8, 64, 200, 4096)
		}
		if rng.Chance(1, 2) {
			have := map[string]bool{}
			for _, c := range p.Creators {
				if rng.Chance(1, 2) && !have[c.D+"/"+c.N] {
					have[c.D+"/"+c.N] = true
					p.OldFiles = append(p.OldFiles, Creator{D: c.D, N: c.N, ID: 0x01D, Len: rng.Pick(0, 5, 300)})
				}
			}
		}
		p.Reads = rng.Intn(4)
	}
	return p
}

func (c13) Shrink(pj json.RawMessage) []json.RawMessage {
	var p ACPlan
	json.Unmarshal(pj, &p)
	var out []json.RawMessage
	add := func(q ACPlan) {
		b, _ := json.Marshal(q)
		out = append(out, b)
	}
	if p.Batch == "seq" {
		for i := range p.Seq.Ops {
			q := p
			sq := *p.Seq
			sq.Ops = append(append([]FsOp(nil), p.Seq.Ops[:i]...), p.Seq.Ops[i+1:]...)
			if validSeq(sq.Dirs, sq.Ops) {
				q.Seq = &sq
				add(q)
			}
		}
		return out
	}
	if p.Batch == "conc" {
		for i := range p.Creators {
			if len(p.Creators) > 1 {
				q := p
				q.Creators = append(append([]Creator{}, p.Creators[:i]...), p.Creators[i+1:]...)
				add(q)
			}
		}
		if p.Reads > 0 {
			q := p
			q.Reads--
			add(q)
		}
		if len(p.OldFiles) > 0 {
			q := p
			q.OldFiles = nil
			add(q)
		}
		for i, c := range p.Creators {
			if c.Len > 8 {
				q := p
				q.Creators = append([]Creator{}, p.Creators...)
				q.Creators[i].Len = 8
				add(q)
			}
		}
		return out
	}
	if p.OldLen >= 0 {
		q := p
		q.OldLen = -1
		add(q)
	}
	if p.TmpLen >= 0 {
		q := p
		q.TmpLen = -1
		add(q)
	}
	if p.MaxWrite != 0 {
		q := p
		q.MaxWrite = 0
		add(q)
	}
	for _, l := range []int{0, 1, 3, 100} {
		if l < p.DataLen {
			q := p
			q.DataLen = l
			if q.TmpLen > l+26 {
				q.TmpLen = l + 26
			}
			add(q)
		}
	}
	if p.TmpLen > p.DataLen+1 {
		q := p
		q.TmpLen = p.DataLen + 1
		add(q)
	}
	if p.Ordered {
		q := p
		q.Ordered = false
		add(q)
	}
	return out
}

// acData is the data of the plan's call.
func acData(p *ACPlan) []byte {
	data := model.Chunk(p.DataID, p.DataLen)
	if p.ZeroBlock && p.DataLen >= 4096 {
		// an aligned all-zero block inside the data (sparse-file shortcuts)
		off := 0
		if p.DataLen >= 8192 {
			off = 4096
		}
		for i := off; i < off+4096; i++ {
			data[i] = 0
		}
	}
	return data
}

// setupAC builds the prior state durably.
func setupAC(k *simunix.Kernel, p *ACPlan) {
	k.Mkdir("/d0")
	k.Mkdir("/d1")
	for _, c := range append(append([]Creator{}, p.Creators...), p.OldFiles...) {
		if c.D != "d0" && c.D != "d1" {
			k.Mkdir("/" + c.D)
		}
	}
	if p.OldLen >= 0 {
		k.WriteFile("/"+p.Dir+"/"+p.Name, model.Chunk(p.OldID, p.OldLen))
	}
	if p.TmpLen >= 0 {
		k.WriteFile("/"+p.Name+".tmp", model.Chunk(p.TmpID, p.TmpLen))
		k.WriteFile("/"+p.Dir+"/"+p.Name+".tmp", model.Chunk(p.TmpID, p.TmpLen))
	}

	for _, o := range p.OldFiles {
		k.WriteFile("/"+o.D+"/"+o.N, model.Chunk(o.ID, o.Len))
	}
	k.SyncAll()
	if p.TmpSame {
		// the leftover of an earlier call WITH THE SAME DATA that died after its
		// write and before its fsync: the bytes are there, but only in the cache
		k.WriteFileVolatile("/"+p.Name+".tmp", acData(p))
	}
}

// readName reads dir/name through the API; absent=true if Open is refused.
func readName(fs filesys.Filesys, d, n string) (data []byte, absent bool, msg string) {
	var f filesys.File
	pan, m := attempt(func() { f = fs.Open(d, n) })
	if pan {
		return nil, true, m
	}
	pan, m = attempt(func() {
		data = fs.ReadAt(f, 0, 1<<22)
		fs.Close(f)
	})
	if pan {
		return nil, false, "read failed: " + m
	}
	return data, false, ""
}

func (c13) Expand(pj json.RawMessage) []json.RawMessage {
	var p ACPlan
	json.Unmarshal(pj, &p)
	if p.Batch == "conc" || p.Batch == "seq" {
		return nil
	}
	pilot := p
	pilot.Faults = nil
	r := execAC(&pilot, true)
	var out []json.RawMessage
	add := func(f []simunix.Fault) {
		q := p
		q.Faults = f
		b, _ := json.Marshal(q)
		out = append(out, b)
	}
	add(nil) // the completed call over the leftovers
	if r.violation != nil {
		return out
	}
	for _, rec := range r.trace {
		if rec.N < r.acFrom || rec.N >= r.acTo {
			continue // only the system calls of the AtomicCreate itself
		}
		if p.Batch == "crash" {
			add([]simunix.Fault{{At: rec.N, Kind: "crash"}})
			if rec.N == r.acTo-1 {
				// and right after the call has returned (the crash hits the
				// harness's own next system call)
				add([]simunix.Fault{{At: r.acTo, Kind: "crash"}})
			}
			continue
		}
		switch rec.Op {
		case "openat":
			add([]simunix.Fault{{At: rec.N, Kind: "errno", Errno: int(simunix.EACCES)}})
			add([]simunix.Fault{{At: rec.N, Kind: "errno", Errno: int(simunix.ENOSPC)}})
		case "write", "pwrite":
			add([]simunix.Fault{{At: rec.N, Kind: "errno", Errno: int(simunix.EIO)}})
			add([]simunix.Fault{{At: rec.N, Kind: "errno", Errno: int(simunix.ENOSPC)}})
			add([]simunix.Fault{{At: rec.N, Kind: "short", Short: 1}})
			add([]simunix.Fault{{At: rec.N, Kind: "short", Short: int(rec.Ret) / 2}})
		case "fsync", "fdatasync":
			add([]simunix.Fault{{At: rec.N, Kind: "errno", Errno: int(simunix.EIO)}})
			// a failed flush and, a few system calls later, a power failure:
			// whatever the call did after the failure (gave up, retried,
			// renamed), the name holds the old or the new contents. On this
			// kernel, as on Linux, the data that was dirty when fsync failed
			// is dropped from write-back: a retried fsync that "succeeds" has
			// flushed nothing.
			for i := rec.N + 1; i <= rec.N+8; i++ {
				add([]simunix.Fault{{At: rec.N, Kind: "errno", Errno: int(simunix.EIO)}, {At: i, Kind: "crash"}})
			}
		case "renameat", "linkat":
			add([]simunix.Fault{{At: rec.N, Kind: "errno", Errno: int(simunix.EIO)}})
			add([]simunix.Fault{{At: rec.N, Kind: "errno", Errno: int(simunix.ENOSPC)}})
		case "close":
			add([]simunix.Fault{{At: rec.N, Kind: "errno", Errno: int(simunix.EIO)}})
		case "unlinkat", "ftruncate", "fstat":
			add([]simunix.Fault{{At: rec.N, Kind: "errno", Errno: int(simunix.EIO)}})
		}
	}
	return out
}

type acResult struct {
	violation *harness.Violation
	trace     []simunix.SysRec
	events    int64
	probes    map[string]int
	faults    map[string]int
	log       []string
	faultHit  bool
	acFrom    int // system calls [acFrom, acTo) belong to the AtomicCreate call
	acTo      int
}

func describeState(data []byte, absent bool) string {
	if absent {
		return "absent"
	}
	return model.DescribeBytes(data)
}

// execAC runs the crash / fault batches: prior state, the call (with its
// fault), then what is visible, then a fresh fault-free call.
func execAC(p *ACPlan, keepLog bool) acResult {
	res := acResult{probes: map[string]int{}, faults: map[string]int{}}
	k := simunix.NewKernel(simunix.Config{Ordered: p.Ordered, MaxWrite: p.MaxWrite, Trace: true})
	setupAC(k, p)
	s := simrt.New(simrt.Config{DaemonsOK: true, Tape: simrt.Replay(nil, nil), KeepLog: keepLog, MaxSteps: 3000000})
	simunix.Attach(s, k)
	data := acData(p)
	var old []byte
	if p.OldLen >= 0 {
		old = model.Chunk(p.OldID, p.OldLen)
	}
	fail := func(oracle, key, msg string) {
		if res.violation == nil {
			if key == "" {
				key = oracle
			}
			res.violation = &harness.Violation{Oracle: oracle, Key: key, Msg: msg}
		}
	}
	facts := ""
	if p.TmpLen > p.DataLen {
		facts = "/leftover-tmp-longer-than-data"
	}
	isOldOrNew := func(got []byte, absent bool) (isOld, isNew bool) {
		if absent {
			return p.OldLen < 0, false
		}
		return p.OldLen >= 0 && sameBytes(got, old), sameBytes(got, data)
	}
	// "at every instant": after every system call of an AtomicCreate the
	// destination, as any other process would see it, is the previous state or
	// exactly the data -- never anything in between
	var instantBad string
	watch := func(prev []byte, prevAbsent bool, next []byte, what string) {
		k.AfterSyscall = func(n int, op string) {
			if instantBad != "" {
				return
			}
			got, ok := k.ReadFile("/" + p.Dir + "/" + p.Name)
			isPrev := (!ok && prevAbsent) || (ok && !prevAbsent && sameBytes(got, prev))
			isNext := ok && sameBytes(got, next)
			if !isPrev && !isNext {
				instantBad = fmt.Sprintf("%s: right after system call #%d (%s) %s/%s is %s: neither what it was before the call nor exactly the new data", what, n, op, p.Dir, p.Name, describeState(got, !ok))
			}
		}
	}
	// phase 1: the call
	watch(old, p.OldLen < 0, data, "during the call")
	k.SetFaults(p.Faults)
	var panicked bool
	var pmsg string
	var after []byte
	var afterAbsent bool
	var afterMsg string
	r1 := s.Run(func() {
		fs := filesys.NewDirFs("/")
		res.acFrom = k.Syscalls()
		panicked, pmsg = attempt(func() { fs.AtomicCreate(p.Dir, p.Name, data) })
		res.acTo = k.Syscalls()
		k.AfterSyscall = nil
		// what is visible right now (no crash): through the same instance
		after, afterAbsent, afterMsg = readName(fs, p.Dir, p.Name)
	})
	res.events += r1.Events
	res.trace = append(res.trace, k.Trace...)
	k.Trace = nil
	for kk, v := range s.Faults {
		res.faults[kk] += v
	}
	if keepLog {
		res.log = append(res.log, r1.Log...)
	}
	fault := "none"
	if len(p.Faults) > 0 {
		fault = fmt.Sprintf("%s at system call #%d", p.Faults[0].Kind, p.Faults[0].At)
		for _, t := range res.trace {
			if t.N == p.Faults[0].At {
				fault += " (" + t.Op + ")"
				if t.Fault != "" {
					res.faultHit = true
				}
			}
		}
	}
	k.AfterSyscall = nil
	if instantBad != "" {
		fail("ac.instant.partial", "ac.instant.partial"+facts, instantBad+fmt.Sprintf(" (fault: %s; prior: old=%d bytes, leftover temp=%d bytes)", fault, p.OldLen, p.TmpLen))
		return res
	}
	crashed := r1.Outcome == simrt.Crashed
	if crashed {
		res.faultHit = true
		res.probes["crash"]++
		pend := k.PendingJournal()
		for _, j := range pend {
			if len(j) > 7 && j[:7] == "rename:" {
				res.probes["crash_with_rename_unforced"]++
			}
		}
		ci := 0
		st := k.Crash(func(n int) int {
			v := 0
			if ci < len(p.Choices) {
				v = p.Choices[ci] % n
			}
			ci++
			return v
		})
		if st.WritesLost > 0 {
			res.probes["crash_lost_unsynced_write"]++
		}
		if st.JournalKept > 0 && st.JournalLost > 0 {
			res.probes["crash_journal_partial"]++
		}
	} else {
		// oracles at the moment the call returned / panicked
		if afterMsg != "" && !afterAbsent {
			fail("ac.return.inexact", "", "reading the destination failed after the call: "+afterMsg)
		}
		isOld, isNew := isOldOrNew(after, afterAbsent)
		switch {
		case len(p.Faults) == 0 && panicked:
			fail("ac.return.panic", "ac.return.panic"+facts, fmt.Sprintf("AtomicCreate(%s,%s,%d bytes) panicked without any fault: %s", p.Dir, p.Name, p.DataLen, pmsg))
		case !panicked && !isNew:
			o := "ac.return.inexact"
			if len(p.Faults) > 0 {
				o = "ac.fault.silent"
			}
			fail(o, o+facts, fmt.Sprintf("AtomicCreate(%s,%s) returned normally (fault: %s; prior: old=%d bytes, leftover temp=%d bytes) but %s/%s is %s instead of exactly the %d bytes of data", p.Dir, p.Name, fault, p.OldLen, p.TmpLen, p.Dir, p.Name, describeState(after, afterAbsent), p.DataLen))
		case panicked && !isOld && !isNew:
			fail("ac.fault.partial", "ac.fault.partial"+facts, fmt.Sprintf("AtomicCreate(%s,%s) panicked (%s; fault: %s) and left %s/%s as %s: neither the previous state nor the new data", p.Dir, p.Name, pmsg, fault, p.Dir, p.Name, describeState(after, afterAbsent)))
		}
		if panicked {
			res.probes["call_panicked_on_fault"]++
		} else if len(p.Faults) > 0 && res.faultHit {
			res.probes["fault_absorbed"]++
		}
	}
	if res.violation != nil {
		return res
	}
	// phase 2 (after a crash): remount and look
	k.SetFaults(nil)
	if crashed {
		var got []byte
		var absent bool
		r2 := s.Run(func() {
			fs := filesys.NewDirFs("/")
			got, absent, _ = readName(fs, p.Dir, p.Name)
		})
		res.events += r2.Events
		if keepLog {
			res.log = append(res.log, r2.Log...)
		}
		isOld, isNew := isOldOrNew(got, absent)
		if !isOld && !isNew {
			o := "ac.crash.partial"
			// the name points at the new file although its data is not there:
			// visible before durable
			if !absent && !(p.OldLen >= 0 && len(got) == p.OldLen) {
				o = "ac.crash.visible-before-durable"
			}
			fail(o, o+facts, fmt.Sprintf("after a power crash (%s; journal mode ordered=%v) %s/%s is %s: neither the previous state (%d bytes) nor exactly the new data (%d bytes)", fault, p.Ordered, p.Dir, p.Name, describeState(got, absent), p.OldLen, p.DataLen))
			return res
		}
		if isNew {
			res.probes["crash_new_visible"]++
		} else {
			res.probes["crash_old_visible"]++
		}
	}
	// phase 3: a fresh, fault-free call over whatever was left behind
	data2 := model.Chunk(0xD2, p.Data2Len)
	var pan2 bool
	var msg2 string
	var got2 []byte
	var abs2 bool
	leftover := false
	for _, n := range append(k.ListDir("/"), k.ListDir("/"+p.Dir)...) {
		if n == p.Name+".tmp" {
			leftover = true
		}
	}
	if leftover {
		res.probes["fresh_call_over_leftover_tmp"]++
	}
	before3, ok3 := k.ReadFile("/" + p.Dir + "/" + p.Name)
	watch(before3, !ok3, data2, "during a fresh call over what the interrupted one left behind")
	r3 := s.Run(func() {
		fs := filesys.NewDirFs("/")
		pan2, msg2 = attempt(func() { fs.AtomicCreate(p.Dir, p.Name, data2) })
		k.AfterSyscall = nil
		got2, abs2, _ = readName(fs, p.Dir, p.Name)
	})
	k.AfterSyscall = nil
	if instantBad != "" {
		fail("ac.instant.partial", "ac.instant.partial/after-interrupted-call", instantBad+fmt.Sprintf(" (the earlier call: %s)", fault))
		return res
	}
	res.events += r3.Events
	if keepLog {
		res.log = append(res.log, r3.Log...)
	}
	if pan2 {
		fail("ac.return.panic", "ac.return.panic/after-interrupted-call", fmt.Sprintf("a fault-free AtomicCreate(%s,%s) after an interrupted one (%s) panicked: %s", p.Dir, p.Name, fault, msg2))
	} else if abs2 || !sameBytes(got2, data2) {
		f2 := ""
		if leftover {
			f2 = "/leftover-tmp"
		}
		fail("ac.return.inexact", "ac.return.inexact"+f2, fmt.Sprintf("a fault-free AtomicCreate(%s,%s,%d bytes) after an interrupted one (%s) returned, but the file is %s", p.Dir, p.Name, p.Data2Len, fault, describeState(got2, abs2)))
	}
	return res
}

func (c13) Exec(pj json.RawMessage, tape *simrt.Tape, keepLog bool) harness.RunOut {
	var p ACPlan
	if err := json.Unmarshal(pj, &p); err != nil {
		return harness.RunOut{Infra: err.Error()}
	}
	if p.Batch == "conc" {
		return execACConc(&p, pj, tape, keepLog)
	}
	if p.Batch == "seq" {
		out := harness.RunOut{Fingerprint: planHash(pj, ""), Probes: map[string]int{"batch_seq": 1}, Faults: map[string]int{}}
		for _, sys := range []string{"mem", "dir"} {
			r := runFsSeq(p.Seq, sys, keepLog)
			out.Events += r.events
			if keepLog {
				out.Log = append(out.Log, "== system "+sys)
				out.Log = append(out.Log, r.log...)
			}
			if r.violation != nil {
				v := *r.violation
				v.Oracle = strings.Replace(v.Oracle, "fs.seq.", "ac.seq.", 1)
				v.Key = strings.Replace(v.Key, "fs.seq.", "ac.seq.", 1)
				v.Msg = "a history of completed AtomicCreate calls and later unrelated operations: " + v.Msg
				out.Violation = &v
				return out
			}
		}
		for _, o := range p.Seq.Ops {
			if o.K == "ac" {
				out.NonTrivial = true
			}
		}
		out.Sample = map[string]interface{}{"batch": "seq", "ops": opStrings(p.Seq.Ops)}
		return out
	}
	r := execAC(&p, keepLog)
	out := harness.RunOut{Fingerprint: planHash(pj, ""), Events: r.events, Probes: r.probes, Faults: r.faults, Log: r.log, Violation: r.violation}
	out.Probes["batch_"+p.Batch]++
	out.NonTrivial = r.faultHit || p.TmpLen >= 0
	out.Sample = map[string]interface{}{"plan": p, "syscalls": len(r.trace)}
	return out
}

// ---- concurrent observers and creators ---------------------------------------------

type acObs struct {
	D, N      string
	Call, Ret int64
	Data      []byte
	Absent    bool
	Msg       string
}

func relation(cs []Creator) string {
	rel := "independent"
	for i, a := range cs {
		for j, b := range cs {
			if i < j && a.N == b.N {
				if a.D == b.D {
					return "same-name-same-dir"
				}
				rel = "same-name-different-dirs"
			}
		}
	}
	return rel
}

func execACConc(p *ACPlan, pj []byte, tape *simrt.Tape, keepLog bool) harness.RunOut {
	k := simunix.NewKernel(simunix.Config{MaxWrite: p.MaxWrite})
	if p.System == "dir" {
		setupAC(k, p)
	}
	s := simrt.New(simrt.Config{DaemonsOK: true, Tape: tape, KeepLog: keepLog})
	simunix.Attach(s, k)
	type crec struct {
		Call, Ret int64
		Panicked  bool
		Msg       string
	}
	crecs := make([]crec, len(p.Creators))
	for i := range crecs {
		crecs[i].Call, crecs[i].Ret = 1<<62, 1<<62 // not started / not returned
	}
	var obs []acObs
	var finals []acObs
	res := s.Run(func() {
		var fs filesys.Filesys
		if p.System == "mem" {
			m := filesys.NewMemFs()
			m.Mkdir("d0")
			m.Mkdir("d1")
			made := map[string]bool{"d0": true, "d1": true}
			for _, c := range append(append([]Creator{}, p.Creators...), p.OldFiles...) {
				if !made[c.D] {
					made[c.D] = true
					m.Mkdir(c.D)
				}
			}
			for _, o := range p.OldFiles {
				m.AtomicCreate(o.D, o.N, model.Chunk(o.ID, o.Len))
			}
			fs = m
		} else {
			fs = filesys.NewDirFs("/")
		}
		var wg simsync.WaitGroup
		wg.Add(len(p.Creators))
		for i := range p.Creators {
			i := i
			c := p.Creators[i]
			simrt.GoNamed(fmt.Sprintf("creator%d", i), func() {
				defer wg.Done()
				crecs[i].Call = simrt.Stamp(i)
				crecs[i].Panicked, crecs[i].Msg = attempt(func() { fs.AtomicCreate(c.D, c.N, model.Chunk(c.ID, c.Len)) })
				crecs[i].Ret = simrt.Stamp(i)
			})
		}
		if p.Reads > 0 {
			wg.Add(1)
			simrt.GoNamed("reader", func() {
				defer wg.Done()
				for r := 0; r < p.Reads; r++ {
					c := p.Creators[r%len(p.Creators)]
					o := acObs{D: c.D, N: c.N}
					o.Call = simrt.Stamp(90)
					o.Data, o.Absent, o.Msg = readName(fs, c.D, c.N)
					o.Ret = simrt.Stamp(90)
					obs = append(obs, o)
				}
			})
		}
		wg.Wait()
		seen := map[string]bool{}
		for _, c := range p.Creators {
			if seen[c.D+"/"+c.N] {
				continue
			}
			seen[c.D+"/"+c.N] = true
			o := acObs{D: c.D, N: c.N}
			o.Data, o.Absent, o.Msg = readName(fs, c.D, c.N)
			finals = append(finals, o)
		}
	})
	out := harness.RunOut{Fingerprint: res.Fingerprint, Events: res.Events, SimTime: res.SimTime, Probes: s.Probes, Faults: s.Faults,
		Sched: tape.Sched, Aux: tape.Aux, Log: res.Log}
	out.Probes["batch_conc"]++
	rel := relation(p.Creators)
	out.Probes["conc_"+rel]++
	out.Sample = map[string]interface{}{"plan": p, "relation": rel}
	facts := "/" + p.System + "/" + rel
	fail := func(oracle, msg string) {
		if out.Violation == nil {
			out.Violation = &harness.Violation{Oracle: oracle, Key: oracle + facts, Msg: fmt.Sprintf("[%s, creators %s] %s", p.System, rel, msg)}
		}
	}
	switch res.Outcome {
	case simrt.Deadlock:
		fail("ac.conc.deadlock", "AtomicCreate never returns: "+res.Detail)
		return out
	case simrt.StepCap:
		out.Inconclusive = "inconclusive-steps"
		return out
	}
	if keepLog {
		for i, c := range crecs {
			out.Log = append(out.Log, fmt.Sprintf("history: creator%d AtomicCreate(%s,%s,chunk %#x x%d) @%d..%d panicked=%v %s", i, p.Creators[i].D, p.Creators[i].N, p.Creators[i].ID, p.Creators[i].Len, c.Call, c.Ret, c.Panicked, c.Msg))
		}
		for _, o := range obs {
			out.Log = append(out.Log, fmt.Sprintf("history: reader %s/%s @%d..%d -> %s %s", o.D, o.N, o.Call, o.Ret, describeState(o.Data, o.Absent), o.Msg))
		}
		for _, o := range finals {
			out.Log = append(out.Log, fmt.Sprintf("history: final %s/%s -> %s", o.D, o.N, describeState(o.Data, o.Absent)))
		}
	}
	for i, a := range crecs {
		for j, b := range crecs {
			if i < j && a.Call < b.Ret && b.Call < a.Ret {
				out.NonTrivial = true
			}
		}
		for _, o := range obs {
			if a.Call < o.Ret && o.Call < a.Ret {
				out.NonTrivial = true
			}
		}
	}
	for i, c := range crecs {
		if c.Panicked {
			fail("ac.conc.panic", fmt.Sprintf("creator %d AtomicCreate(%s,%s) panicked: %s", i, p.Creators[i].D, p.Creators[i].N, c.Msg))
			return out
		}
	}
	oldOf := func(d, n string) ([]byte, bool) {
		for _, o := range p.OldFiles {
			if o.D == d && o.N == n {
				return model.Chunk(o.ID, o.Len), true
			}
		}
		return nil, false
	}
	// every observation: old or one creator's complete data; once a creator of
	// that name has returned, no longer the old state
	check := func(o acObs, final bool) {
		old, hasOld := oldOf(o.D, o.N)
		var done, possible []int
		for i, c := range p.Creators {
			if c.D == o.D && c.N == o.N {
				if final || crecs[i].Ret < o.Call {
					done = append(done, i)
				}
				if final || crecs[i].Call < o.Ret {
					possible = append(possible, i)
				}
			}
		}
		if o.Absent {
			if hasOld || len(done) > 0 {
				fail("ac.conc.reader-partial", fmt.Sprintf("%s/%s was absent at [%d,%d] (%s) although it existed before / a creator had returned", o.D, o.N, o.Call, o.Ret, o.Msg))
			}
			return
		}
		if o.Msg != "" {
			fail("ac.conc.reader-partial", fmt.Sprintf("reading %s/%s failed: %s", o.D, o.N, o.Msg))
			return
		}
		if hasOld && len(done) == 0 && sameBytes(o.Data, old) {
			return
		}
		for _, i := range possible {
			c := p.Creators[i]
			if sameBytes(o.Data, model.Chunk(c.ID, c.Len)) {
				// if some creator returned strictly before another one started
				// and that one also returned before the read, the earlier data is stale
				for _, j := range done {
					if j != i && crecs[i].Ret < crecs[j].Call {
						fail("ac.conc.same-name-mixture", fmt.Sprintf("%s/%s holds the data of creator %d although creator %d ran entirely after it", o.D, o.N, i, j))
					}
				}
				return
			}
		}
		oracle := "ac.conc.reader-partial"
		if final {
			oracle = "ac.conc.disturbed"
			if rel == "same-name-same-dir" {
				oracle = "ac.conc.same-name-mixture"
			}
		}
		var want []string
		for _, i := range possible {
			want = append(want, fmt.Sprintf("creator %d: %d bytes of chunk %#x", i, p.Creators[i].Len, p.Creators[i].ID))
		}
		sort.Strings(want)
		when := fmt.Sprintf("at [%d,%d]", o.Call, o.Ret)
		if final {
			when = "after all creators returned"
		}
		fail(oracle, fmt.Sprintf("%s/%s %s is %s; allowed: the old state or the complete data of one of {%v}", o.D, o.N, when, describeState(o.Data, o.Absent), want))
	}
	for _, o := range obs {
		check(o, false)
	}
	for _, o := range finals {
		check(o, true)
	}
	return out
}
