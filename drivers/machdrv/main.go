// machdrv is the driver binary for the properties about machine/disk and
// machine/filesys (C09-C14). It is compiled by cmd/verifcheck against /repo's
// current working tree with the instrumented overlay.
package main

import "verif/harness"

func main() {
	harness.Main(map[string]harness.Check{
		"C09": c09{},
		"C10": c10{},
		"C11": c11{},
		"C12": c12{},
		"C13": c13{},
		"C14": c14{},
		"KV":  kv{},
	})
}
