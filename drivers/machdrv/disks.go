package main

import (
	"bytes"
	"encoding/json"
	"fmt"
	"os"
	"path/filepath"

	"github.com/goose-lang/goose/machine/async_disk"
	"github.com/goose-lang/goose/machine/disk"

	"verif/harness"
	"verif/model"
	"verif/simrt"
	"verif/simunix"
)

// Sequential disk workloads: C09 (register-array semantics, Mem == File) and
// C11 (reopen, power crash, single-fault enumeration).

type SeqOp struct {
	Kind     string `json:"k"` // read, readto, write, size, barrier
	Addr     uint64 `json:"a,omitempty"`
	ID       uint64 `json:"id,omitempty"`
	BufLen   int    `json:"len,omitempty"`    // write buffer length (0 = 4096)
	Shared   bool   `json:"shared,omitempty"` // use the client's one reusable buffer
	Scribble bool   `json:"scr,omitempty"`    // mutate the buffer after Write / the slice returned by Read
	// Direct: in the "global" systems this one call goes to the disk object
	// (disk.Get()) instead of the package-level wrapper: both routes are the same disk
	Direct bool `json:"direct,omitempty"`
}

type Round struct {
	N   uint64  `json:"n"`
	Ops []SeqOp `json:"ops"`
}

type DPlan struct {
	Batch    string          `json:"batch"` // seq, reopen, crash, fault
	System   string          `json:"system,omitempty"`
	PriorLen int64           `json:"prior_len"` // -1: no prior image
	Rounds   []Round         `json:"rounds"`
	Faults   []simunix.Fault `json:"faults,omitempty"`
	Ordered  bool            `json:"ordered,omitempty"`
	Real     bool            `json:"real,omitempty"`
	// CrashChoices feeds the crash-survivor selection (journal prefix, which
	// unsynced writes persist, torn point).
	CrashChoices []int `json:"crash_choices,omitempty"`

	durable map[uint64]expBlock
}

// systems of the C09 equivalence batch
var c09Systems = []string{"mem", "async-mem", "file", "async-file", "mem/global", "file/global", "async-mem/global", "async-file/global"}

// expected content of one block
type expBlock struct {
	known bool // false: unconstrained until next successful write
	id    uint64
	prior bool // content is the prior image's byte pattern for this block index
}

const priorBase = 0xEE00000000

func priorImage(n int64) []byte {
	b := make([]byte, n)
	for i := int64(0); i < n; i += 8 {
		blk := uint64(i / model.BlockSize)
		w := model.MkBlock(priorBase+blk, 8)
		copy(b[i:], w)
	}
	return b
}

type seqResult struct {
	violation *harness.Violation
	ops       int
	syscalls  int
	probes    map[string]int
	faults    map[string]int
	log       []string
	events    int64
	outcome   simrt.Outcome
	rawa      bool // read-after-write happened
	faultHit  bool // a fault fired inside an operation
	trace     []simunix.SysRec
}

type diskAPI struct {
	d      disk.Disk
	global bool
	direct bool
}

func (a diskAPI) Read(x uint64) []byte {
	if a.global && !a.direct {
		return disk.Read(x)
	}
	return a.d.Read(x)
}
func (a diskAPI) Write(x uint64, v []byte) {
	if a.global && !a.direct {
		disk.Write(x, v)
		return
	}
	a.d.Write(x, v)
}
func (a diskAPI) ReadTo(x uint64, b []byte) {
	if a.global {
		disk.Get().ReadTo(x, b)
		return
	}
	a.d.ReadTo(x, b)
}
func (a diskAPI) Size() uint64 {
	if a.global && !a.direct {
		return disk.Size()
	}
	return a.d.Size()
}
func (a diskAPI) Barrier() {
	if a.global && !a.direct {
		disk.Barrier()
		return
	}
	a.d.Barrier()
}

// attempt runs f, reporting whether it panicked (refused/surfaced failure).
func attempt(f func()) (panicked bool, msg string) {
	defer func() {
		if r := recover(); r != nil {
			if simrt.IsAbort(r) {
				panic(r)
			}
			panicked, msg = true, fmt.Sprint(r)
		}
	}()
	f()
	return
}

func isZero(b []byte) bool {
	for _, x := range b {
		if x != 0 {
			return false
		}
	}
	return true
}

// matches reports whether block content b (index blk) satisfies e.
func (e expBlock) matches(b []byte, blk uint64) (bool, string) {
	if !e.known {
		return true, ""
	}
	if len(b) != model.BlockSize {
		return false, fmt.Sprintf("block of %d bytes", len(b))
	}
	if e.prior {
		want := priorImage(int64(blk+1) * model.BlockSize)[blk*model.BlockSize:]
		for i := range b {
			if b[i] != want[i] {
				return false, fmt.Sprintf("byte %d is %#x, the prior image had %#x", i, b[i], want[i])
			}
		}
		return true, ""
	}
	if e.id == 0 {
		if !isZero(b) {
			id, _, _ := model.BlockID(b)
			return false, fmt.Sprintf("expected a zero block, first word is %#x", id)
		}
		return true, ""
	}
	id, uni, sec := model.BlockID(b)
	if id != e.id || !uni {
		return false, fmt.Sprintf("expected write %#x everywhere, found words %#x/%#x", e.id, id, sec)
	}
	return true, ""
}

// runSeq executes a DPlan on one system inside one simulation per phase.
func runSeq(p *DPlan, system string, keepLog bool, prefix string) seqResult {
	var res seqResult
	tape := simrt.Replay(nil, nil)
	s := simrt.New(simrt.Config{DaemonsOK: true, Tape: tape, KeepLog: keepLog, MaxSteps: 2000000})
	k := simunix.NewKernel(simunix.Config{Ordered: p.Ordered, Trace: keepLog})
	path := "/disk.img"
	isFile := system == "file" || system == "async-file" || system == "file/global" || system == "async-file/global"
	global := len(system) > 7 && system[len(system)-7:] == "/global"
	var tmpdir string
	if p.Real && isFile {
		k.Real = true
		var err error
		tmpdir, err = os.MkdirTemp(".", "verif-disk-")
		if err == nil {
			tmpdir, err = filepath.Abs(tmpdir)
		}
		if err != nil {
			res.violation = nil
			res.log = append(res.log, "INFRA: "+err.Error())
			return res
		}
		defer os.RemoveAll(tmpdir)
		path = filepath.Join(tmpdir, "disk.img")
		if p.PriorLen >= 0 {
			os.WriteFile(path, priorImage(p.PriorLen), 0644)
		}
	} else if p.PriorLen >= 0 && isFile {
		k.WriteFile(path, priorImage(p.PriorLen))
	}
	simunix.Attach(s, k)
	fail := func(oracle, key, msg string) {
		if res.violation == nil {
			if key == "" {
				key = oracle
			}
			res.violation = &harness.Violation{Oracle: oracle, Key: key, Msg: fmt.Sprintf("[%s] %s", system, msg)}
		}
	}
	// expected image across rounds
	prevLen := p.PriorLen
	if prevLen < 0 {
		prevLen = 0
	}
	var exp []expBlock // of the previous round
	expPriorPattern := p.PriorLen > 0
	crashed := false
	for ri := range p.Rounds {
		if res.violation != nil {
			break
		}
		rd := p.Rounds[ri]
		// what this round should see
		cur := make([]expBlock, rd.N)
		for j := uint64(0); j < rd.N; j++ {
			switch {
			case !isFile:
				cur[j] = expBlock{known: true}
			case crashed:
				// after a crash: handled by the caller through `durable`
				cur[j] = expBlock{}
			case int64(j+1)*model.BlockSize <= prevLen:
				if exp != nil {
					cur[j] = exp[j]
				} else if expPriorPattern {
					cur[j] = expBlock{known: true, prior: true}
				} else {
					cur[j] = expBlock{known: true}
				}
			case int64(j)*model.BlockSize >= prevLen:
				cur[j] = expBlock{known: true}
			default:
				cur[j] = expBlock{} // partially covered block: unconstrained
			}
		}
		if crashed && p.durable != nil {
			for j := uint64(0); j < rd.N; j++ {
				if e, ok := p.durable[j]; ok {
					cur[j] = e
				}
			}
		}
		if ri == 0 {
			k.SetFaults(p.Faults)
		} else {
			k.SetFaults(nil)
		}
		// state shared with the task
		var lastBarrier map[uint64]expBlock
		sinceBarrier := map[uint64]bool{}
		// lostOK: blocks that were dirty when an fsync failed with EIO and the
		// Barrier surfaced it as a panic: the loss has been reported, a later
		// Barrier cannot bring the data back (the kernel marked the pages
		// clean), so they are unconstrained until they are written again
		lostOK := map[uint64]bool{}
		lostLen := false // (the file's length is metadata and survives a failed data flush)
		barrierFailed := false
		r := s.Run(func() {
			var d disk.Disk
			var err error
			switch system {
			case "mem", "mem/global":
				d = disk.NewMemDisk(rd.N)
			case "async-mem", "async-mem/global":
				d = async_disk.NewMemDisk(rd.N)
			case "file", "file/global":
				d, err = disk.NewFileDisk(path, rd.N)
			case "async-file", "async-file/global":
				d, err = async_disk.NewFileDisk(path, rd.N)
			}
			nsysOpen := k.Syscalls()
			if err != nil {
				// a surfaced failure is fine when a fault was injected in open
				if len(p.Faults) == 0 || ri != 0 {
					fail(prefix+".open", "", fmt.Sprintf("round %d: NewFileDisk(%d blocks) failed without an injected fault: %v", ri, rd.N, err))
				} else {
					res.faultHit = true
				}
				return
			}
			faultInOpen := false
			for _, f := range p.Faults {
				if ri == 0 && f.Op == "" && f.At < nsysOpen && f.Kind != "crash" {
					// fault fired inside NewFileDisk yet it reported success:
					// everything read afterwards must still be exact
					res.faultHit = true
					faultInOpen = true
				}
			}
			api := diskAPI{d: d, global: global}
			if global {
				disk.Init(d)
			}
			shared := make([]byte, model.BlockSize)
			// a slice returned by Read belongs to the caller: it must not change
			// when the disk is used again (held across later operations)
			var held []byte
			var heldCopy []byte
			heldAt := -1
			checkHeld := func(oi int) bool {
				if held != nil && !bytes.Equal(held, heldCopy) {
					fail(prefix+".alias-read-buf", "", fmt.Sprintf("the slice returned by Read in op %d changed while the caller held it (by op %d): the disk exposes or reuses memory it handed out", heldAt, oi))
					return false
				}
				return true
			}
			if sz := api.Size(); sz != rd.N {
				fail(prefix+".size", "", fmt.Sprintf("round %d: Size() = %d after opening with %d blocks", ri, sz, rd.N))
				return
			}
			// reopen oracle: read everything first (C11 a), with both Read and ReadTo
			if p.Batch != "seq" && (p.Batch != "fault" || faultInOpen) {
				if isFile && !k.Real && !faultInOpen && !crashed {
					// "a disk of exactly the requested number of blocks": the backing image too
					if data, ok := k.ReadFile(path); ok && uint64(len(data)) != rd.N*model.BlockSize {
						fail(prefix+".reopen.length", "", fmt.Sprintf("round %d: after NewFileDisk(%d blocks) on an image of %d bytes the backing file is %d bytes long, not %d", ri, rd.N, prevLen, len(data), rd.N*model.BlockSize))
						return
					}
				}
				if faultInOpen {
					// the backing file must have exactly the requested length
					if data, ok := k.ReadFile(path); ok && uint64(len(data)) != rd.N*model.BlockSize {
						fail(prefix+".fault.silent", prefix+".fault.silent/open/length", fmt.Sprintf("NewFileDisk(%d blocks) returned success although a system call inside it failed, and the image is %d bytes long", rd.N, len(data)))
						return
					}
				}
				for j := uint64(0); j < rd.N; j++ {
					for _, how := range []string{"readto", "read"} {
						var b []byte
						pan, msg := attempt(func() {
							if how == "read" {
								b = api.Read(j)
							} else {
								b = make([]byte, model.BlockSize)
								for i := range b {
									b[i] = 0xA5
								}
								api.ReadTo(j, b)
							}
						})
						if pan {
							fail(prefix+".reopen.refused", "", fmt.Sprintf("round %d: %s(%d) of a %d-block disk panicked after reopen: %s", ri, how, j, rd.N, msg))
							return
						}
						if ok, why := cur[j].matches(b, j); !ok {
							o := prefix + ".reopen.retained"
							kind := "retained"
							if cur[j].known && cur[j].id == 0 && !cur[j].prior {
								o = prefix + ".reopen.new-nonzero"
								kind = "new"
							}
							if crashed {
								o = prefix + ".crash.barrier-lost"
								kind = "barriered"
							}
							key := o
							if p.PriorLen >= 0 && uint64(p.PriorLen) == rd.N && ri == 0 {
								key = o + "/prior-bytes==numBlocks"
							}
							fail(o, key, fmt.Sprintf("round %d (image was %d bytes, opened with %d blocks): %s block %d via %s: %s", ri, prevLen, rd.N, kind, j, how, why))
							return
						}
						if !cur[j].known {
							// pin the unconstrained block to what was observed
							// only if uniform; otherwise keep it unconstrained
						}
					}
				}
			}
			// the round's operations against the model
			for oi, op := range rd.Ops {
				res.ops++
				api.direct = op.Direct
				sysBefore := k.Syscalls()
				faultInOp := func() *simunix.Fault {
					if ri != 0 {
						return nil
					}
					for i := range p.Faults {
						if f := &p.Faults[i]; f.Op == "" && f.At >= sysBefore && f.At < k.Syscalls() {
							if f.Kind == "short" && op.Kind == "barrier" {
								continue // a short-transfer fault cannot apply to fsync
							}
							return f
						}
					}
					// faults selected per system call name (the k-th pwrite, every pwrite from then on)
					for i := range k.Fired {
						if ff := &k.Fired[i]; ff.F.Op != "" && ff.N >= sysBefore && ff.N < k.Syscalls() {
							return &ff.F
						}
					}
					return nil
				}
				switch op.Kind {
				case "size":
					if sz := api.Size(); sz != rd.N {
						fail(prefix+".size", "", fmt.Sprintf("op %d: Size() = %d, want %d", oi, sz, rd.N))
						return
					}
				case "barrier":
					pan, msg := attempt(api.Barrier)
					f := faultInOp()
					if f != nil {
						res.faultHit = true
					}
					completed := func() {
						lastBarrier = map[uint64]expBlock{}
						for j := range cur {
							lastBarrier[uint64(j)] = cur[j]
							if lostOK[uint64(j)] {
								lastBarrier[uint64(j)] = expBlock{}
							}
						}
						sinceBarrier = map[uint64]bool{}
					}
					switch {
					case pan && f == nil && barrierFailed:
						// an earlier Barrier reported a failed flush: a disk that keeps
						// refusing to call itself flushed is stricter than required, not wrong
						res.probes = addProbe(res.probes, "barrier_refused_after_reported_failure")
					case pan && f == nil:
						fail(prefix+".refusal", "", fmt.Sprintf("op %d: Barrier panicked without a fault: %s", oi, msg))
						return
					case pan:
						// the failure surfaced. After EIO the kernel has dropped what
						// was dirty: the loss is reported, those blocks are
						// unconstrained until written again
						barrierFailed = true
						if f.Kind == "errno" && f.Errno != int(simunix.EINTR) {
							for j := range sinceBarrier {
								lostOK[j] = true
							}
						}
					default:
						// Barrier returned normally -- with or without a failing
						// fsync underneath (an implementation may recover: retry an
						// interrupted fsync, re-write what a failed one dropped).
						// What counts is the result: nothing written before this
						// Barrier may still be volatile.
						if isFile && !k.Real {
							at := int64(-2)
							for _, b := range k.VolatileBlocks(path, model.BlockSize) {
								if b < 0 && lostLen {
									continue
								}
								if b >= 0 && b < int64(len(cur)) && !cur[b].known {
									continue // a Write to this block failed and said so: its content is nobody's promise
								}
								if b < 0 || !lostOK[uint64(b)] {
									at = b
									break
								}
							}
							if at != -2 {
								o, key := prefix+".barrier-not-durable", ""
								what := "no fault was injected"
								if f != nil {
									o = prefix + ".fault.silent"
									key = fmt.Sprintf("%s.fault.silent/fsync/%s", prefix, f.Kind)
									what = fmt.Sprintf("its fsync failed (errno %d)", f.Errno)
								}
								fail(o, key, fmt.Sprintf("op %d: Barrier returned normally (%s), but the image's durable contents differ from its current contents in block %d (-1: the length): a power failure now would lose data written before the Barrier", oi, what, at))
								return
							}
						}
						completed()
					}
				case "write":
					n := op.BufLen
					if n == 0 {
						n = model.BlockSize
					}
					var buf []byte
					if op.Shared && n == model.BlockSize {
						buf = shared
						copy(buf, model.MkBlock(op.ID, n))
					} else {
						buf = model.MkBlock(op.ID, n)
					}
					pan, msg := attempt(func() { api.Write(op.Addr, buf) })
					wantRefused := n != model.BlockSize || op.Addr >= rd.N
					f := faultInOp()
					if op.Addr < rd.N {
						sinceBarrier[op.Addr] = true
						if !pan && n == model.BlockSize {
							delete(lostOK, op.Addr) // written again: dirty again
						}
					}
					switch {
					case f != nil:
						res.faultHit = true
						// A failed or short pwrite inside this Write. The property
						// forbids SILENT loss, not recovery: if the call panics the
						// block is unconstrained until it is next written; if it
						// returns normally (e.g. a correct retry loop completed the
						// transfer) the block must hold exactly the new value, which
						// is verified at once by reading it back.
						if op.Addr < rd.N {
							cur[op.Addr] = expBlock{}
						}
						if !pan && op.Addr < rd.N && n == model.BlockSize {
							var back []byte
							k.Quiet = true // the harness's own observation: no fault, not counted
							bpan, bmsg := attempt(func() { back = api.Read(op.Addr) })
							k.Quiet = false
							want := expBlock{known: true, id: op.ID}
							ok, why := false, "the read-back panicked: "+bmsg
							if !bpan {
								ok, why = want.matches(back, op.Addr)
							}
							if !ok {
								fail(prefix+".fault.silent", fmt.Sprintf("%s.fault.silent/pwrite/%s", prefix, f.Kind), fmt.Sprintf("op %d: Write(%d) returned normally although its pwrite %s, and the block does not hold the written value: %s", oi, op.Addr, describeFault(f), why))
								return
							}
							cur[op.Addr] = want
							res.probes = addProbe(res.probes, "faulted_write_recovered")
						}
					case pan != wantRefused:
						fail(prefix+".refusal", "", fmt.Sprintf("op %d: Write(addr %d, %d-byte buffer) on a %d-block disk: panicked=%v (%s), expected %v", oi, op.Addr, n, rd.N, pan, msg, wantRefused))
						return
					case !pan:
						cur[op.Addr] = expBlock{known: true, id: op.ID}
						if op.Scribble {
							for i := range buf {
								buf[i] ^= 0x5A
							}
							res.probes = addProbe(res.probes, "scribble_after_write")
						}
					}
				case "read", "readto":
					var b []byte
					pan, msg := attempt(func() {
						if op.Kind == "read" {
							b = api.Read(op.Addr)
						} else {
							if op.Shared {
								b = shared
							} else {
								b = make([]byte, model.BlockSize)
							}
							for i := range b {
								b[i] = 0xA5
							}
							api.ReadTo(op.Addr, b)
						}
					})
					wantRefused := op.Addr >= rd.N
					f := faultInOp()
					if f != nil {
						res.faultHit = true
						if !pan {
							// returned normally: then the data must be right
							if ok, why := cur[op.Addr].matches(b, op.Addr); !ok || !cur[op.Addr].known && f.Kind == "short" && stale(b) {
								fail(prefix+".fault.silent", fmt.Sprintf("%s.fault.silent/pread/%s", prefix, f.Kind), fmt.Sprintf("op %d: %s(%d) returned normally with wrong data although its pread %s: %s", oi, op.Kind, op.Addr, describeFault(f), why))
								return
							}
						}
						continue
					}
					if pan != wantRefused {
						fail(prefix+".refusal", "", fmt.Sprintf("op %d: %s(addr %d) on a %d-block disk: panicked=%v (%s), expected %v", oi, op.Kind, op.Addr, rd.N, pan, msg, wantRefused))
						return
					}
					if pan {
						continue
					}
					if ok, why := cur[op.Addr].matches(b, op.Addr); !ok {
						o := prefix + ".value"
						fail(o, "", fmt.Sprintf("round %d op %d: %s(%d): %s", ri, oi, op.Kind, op.Addr, why))
						return
					}
					if cur[op.Addr].known && cur[op.Addr].id != 0 {
						res.rawa = true
					}
					if op.Scribble && op.Kind == "read" {
						for i := range b {
							b[i] ^= 0x3C
						}
						res.probes = addProbe(res.probes, "scribble_after_read")
					} else if op.Kind == "read" && p.Batch == "seq" {
						older := held
						held, heldCopy, heldAt = b, append([]byte(nil), b...), oi
						res.probes = addProbe(res.probes, "held_read_result")
						if older != nil && cap(older) > len(older) {
							// the caller appends to the slice an earlier Read gave
							// it: spare capacity must not be memory that belongs to
							// anyone else (checked through the slice now held)
							spare := older[len(older):cap(older)]
							for i := range spare {
								spare[i] = 0xC3
							}
							res.probes = addProbe(res.probes, "append_into_spare_capacity_of_read_result")
						}
					}
				}
				if p.Batch == "seq" && !checkHeld(oi) {
					return
				}
				// cross-invariant: no other address changed (full scan on
				// small disks, neighbours otherwise) — fault-free runs only
				if op.Kind == "write" && (p.Batch == "seq" || p.Batch == "reopen") {
					var scan []uint64
					if rd.N <= 8 {
						for j := uint64(0); j < rd.N; j++ {
							scan = append(scan, j)
						}
					} else if op.Addr < rd.N {
						for _, j := range []uint64{op.Addr - 1, op.Addr + 1, 0, rd.N - 1} {
							if j < rd.N {
								scan = append(scan, j)
							}
						}
					}
					for _, j := range scan {
						var b []byte
						pan, msg := attempt(func() { b = api.Read(j) })
						if pan {
							fail(prefix+".refusal", "", fmt.Sprintf("Read(%d) panicked: %s", j, msg))
							return
						}
						if ok, why := cur[j].matches(b, j); !ok {
							o := prefix + ".neighbour-changed"
							if j == op.Addr {
								o = prefix + ".value"
							}
							fail(o, "", fmt.Sprintf("round %d after op %d Write(%d): block %d: %s", ri, oi, op.Addr, j, why))
							return
						}
					}
				}
			}
			pan, msg := attempt(d.Close)
			if pan && len(p.Faults) == 0 {
				fail(prefix+".refusal", "", "Close panicked without a fault: "+msg)
			}
		})
		res.events += r.Events
		res.syscalls += k.Syscalls()
		res.outcome = r.Outcome
		if keepLog {
			res.log = append(res.log, r.Log...)
			res.trace = append(res.trace, k.Trace...)
			k.Trace = nil
		}
		for kk, v := range s.Faults {
			if res.faults == nil {
				res.faults = map[string]int{}
			}
			res.faults[kk] = v
		}
		if r.Outcome == simrt.Crashed {
			// survivors chosen from the plan's aux choices
			ci := 0
			st := k.Crash(func(n int) int {
				v := 0
				if ci < len(p.CrashChoices) {
					v = p.CrashChoices[ci] % n
				}
				ci++
				return v
			})
			res.probes = addProbe(res.probes, "crash")
			if st.WritesLost > 0 {
				res.probes = addProbe(res.probes, "crash_lost_unsynced_write")
			}
			if st.Torn > 0 {
				res.probes = addProbe(res.probes, "crash_torn_write")
			}
			crashed = true
			res.faultHit = true
			// durable expectation: blocks not written since the last completed
			// Barrier keep their barriered value; others are unconstrained
			p.durable = map[uint64]expBlock{}
			for j := uint64(0); j < rd.N; j++ {
				if lastBarrier != nil && !sinceBarrier[j] {
					p.durable[j] = lastBarrier[j]
				} else if lastBarrier == nil && !sinceBarrier[j] {
					p.durable[j] = cur[j] // untouched since open: durable image
				} else {
					p.durable[j] = expBlock{}
				}
			}
			if lastBarrier != nil {
				res.probes = addProbe(res.probes, "crash_after_barrier")
			}
		} else if r.Outcome == simrt.Deadlock {
			fail(prefix+".deadlock", "", fmt.Sprintf("round %d: an API call never returns (after %d operations): %s", ri, res.ops, r.Detail))
		} else if r.Outcome != simrt.Completed {
			res.log = append(res.log, "outcome "+r.Outcome.String()+" "+r.Detail)
		}
		if isFile {
			prevLen = int64(rd.N) * model.BlockSize
			exp = cur
			expPriorPattern = false
		}
	}
	return res
}

func stale(b []byte) bool {
	for _, x := range b {
		if x == 0xA5 {
			return true
		}
	}
	return false
}

func describeFault(f *simunix.Fault) string {
	if f.Kind == "short" {
		return fmt.Sprintf("transferred only %d bytes", f.Short)
	}
	return fmt.Sprintf("failed with errno %d", f.Errno)
}

func addProbe(m map[string]int, k string) map[string]int {
	if m == nil {
		m = map[string]int{}
	}
	m[k]++
	return m
}

func planHash(pj []byte, extra string) uint64 {
	return simrt.HashString(string(pj) + extra)
}

// ---- address / buffer generators -----------------------------------------------

func genAddr(rng *simrt.Rand, n uint64) uint64 {
	if rng.Chance(1, 6) {
		return rng.PickU64(0, n-1, n, n+1, 1<<32, 1<<52, ^uint64(0), 1<<52+1, n*2)
	}
	if n == 0 {
		return uint64(rng.Intn(3))
	}
	return uint64(rng.Intn(int(n)))
}

func genSeqOps(rng *simrt.Rand, n uint64, count int, idBase uint64, odd bool) []SeqOp {
	var ops []SeqOp
	var written []uint64
	for i := 0; i < count; i++ {
		a := genAddr(rng, n)
		if len(written) > 0 && rng.Chance(1, 2) {
			a = written[rng.Intn(len(written))]
		}
		switch rng.Intn(12) {
		case 0, 1, 2, 3:
			op := SeqOp{Kind: "write", Addr: a, ID: idBase + uint64(i) + 1, Shared: rng.Chance(1, 4), Scribble: rng.Chance(1, 3), Direct: rng.Chance(1, 4)}
			if rng.Chance(1, 8) {
				op.ID = 0 // an all-zero block
			} else if rng.Chance(1, 5) {
				// content with zero stretches: only the last / first word set,
				// only one half set
				op.ID = model.Shaped(op.ID, 1+rng.Intn(4))
			} else if rng.Chance(1, 8) {
				// the same content as an earlier write (possibly to this address)
				for j := len(ops) - 1; j >= 0; j-- {
					if ops[j].Kind == "write" && ops[j].BufLen == 0 {
						op.ID = ops[j].ID
						if rng.Chance(1, 2) {
							op.Addr = ops[j].Addr
						}
						break
					}
				}
			}
			if odd && rng.Chance(1, 8) {
				op.BufLen = rng.Pick(1, 4095, 4097, 8192, 8)
			}
			ops = append(ops, op)
			if a < n && op.BufLen == 0 {
				written = append(written, a)
			}
		case 4, 5, 6:
			ops = append(ops, SeqOp{Kind: "read", Addr: a, Scribble: rng.Chance(1, 3), Direct: rng.Chance(1, 4)})
		case 7, 8, 9:
			ops = append(ops, SeqOp{Kind: "readto", Addr: a, Shared: rng.Chance(1, 3)})
		case 10:
			ops = append(ops, SeqOp{Kind: "size"})
		default:
			ops = append(ops, SeqOp{Kind: "barrier"})
		}
	}
	return ops
}

// ---- C09 ------------------------------------------------------------------------

type c09 struct{}

func (c09) ID() string                               { return "C09" }
func (c09) Strategy(rng *simrt.Rand) simrt.Strategy  { return simrt.Strategy{Kind: "seq"} }
func (c09) Expand(json.RawMessage) []json.RawMessage { return nil }

func (c09) Gen(rng *simrt.Rand, tier string, run int) interface{} {
	p := DPlan{Batch: "seq", PriorLen: -1}
	n := rng.PickU64(0, 1, 2, 3, 8, 100)
	if rng.Chance(1, 16) {
		// sizes at which chunked or slab-allocated storage has an empty or an
		// exactly full last chunk
		n = rng.PickU64(64, 128, 1024, 4096, 4097, 8192)
	}
	p.Real = run%10 == 9
	p.Rounds = []Round{{N: n, Ops: genSeqOps(rng, n, 1+rng.Intn(40), 0x100, true)}}
	if rng.Chance(1, 4) {
		// the disk is closed and another one made (in memory: a new, zeroed
		// disk; on a file: the same image again, possibly with another size)
		for r := 1; r <= 1+rng.Intn(2); r++ {
			nr := n
			if rng.Chance(1, 3) {
				nr = rng.PickU64(0, 1, 2, 3, 8, 100)
			}
			p.Rounds = append(p.Rounds, Round{N: nr, Ops: genSeqOps(rng, nr, 1+rng.Intn(12), uint64(0x100+0x100*r), true)})
		}
	}
	return p
}

func (c09) Shrink(pj json.RawMessage) []json.RawMessage { return shrinkDPlan(pj) }

func shrinkDPlan(pj json.RawMessage) []json.RawMessage {
	var p DPlan
	json.Unmarshal(pj, &p)
	var out []json.RawMessage
	add := func(q DPlan) {
		b, _ := json.Marshal(q)
		out = append(out, b)
	}
	clone := func() DPlan {
		q := p
		q.Rounds = make([]Round, len(p.Rounds))
		for i, r := range p.Rounds {
			q.Rounds[i] = Round{N: r.N, Ops: append([]SeqOp(nil), r.Ops...)}
		}
		q.Faults = append([]simunix.Fault(nil), p.Faults...)
		return q
	}
	if len(p.Rounds) > 1 {
		q := clone()
		q.Rounds = q.Rounds[:len(q.Rounds)-1]
		add(q)
	}
	for ri := range p.Rounds {
		ops := p.Rounds[ri].Ops
		// halves first, then single ops
		if len(ops) > 3 {
			q := clone()
			q.Rounds[ri].Ops = append([]SeqOp(nil), ops[:len(ops)/2]...)
			add(q)
			q2 := clone()
			q2.Rounds[ri].Ops = append([]SeqOp(nil), ops[len(ops)/2:]...)
			add(q2)
		}
		for j := range ops {
			q := clone()
			q.Rounds[ri].Ops = append(append([]SeqOp(nil), ops[:j]...), ops[j+1:]...)
			add(q)
		}
		for j, op := range ops {
			if op.Scribble || op.Shared {
				q := clone()
				q.Rounds[ri].Ops[j].Scribble = false
				q.Rounds[ri].Ops[j].Shared = false
				add(q)
			}
		}
	}
	if p.System != "" && p.System != "file" && p.Batch == "seq" {
		q := clone()
		q.System = "file"
		add(q)
		q2 := clone()
		q2.System = "mem"
		add(q2)
	}
	return out
}

func (c09) Exec(pj json.RawMessage, tape *simrt.Tape, keepLog bool) harness.RunOut {
	var p DPlan
	if err := json.Unmarshal(pj, &p); err != nil {
		return harness.RunOut{Infra: err.Error()}
	}
	out := harness.RunOut{Fingerprint: planHash(pj, ""), Probes: map[string]int{}, Faults: map[string]int{}}
	systems := c09Systems
	if p.System != "" {
		systems = []string{p.System}
	}
	for _, sys := range systems {
		q := p
		q.Real = false
		r := runSeq(&q, sys, keepLog, "disk.seq")
		out.Events += r.events
		for k, v := range r.probes {
			out.Probes[k] += v
		}
		out.NonTrivial = out.NonTrivial || r.rawa
		if keepLog {
			out.Log = append(out.Log, "== system "+sys)
			out.Log = append(out.Log, r.log...)
		}
		if r.violation != nil {
			out.Violation = r.violation
			out.Violation.Key = out.Violation.Oracle
			return out
		}
	}
	if p.Real && p.System == "" {
		q := p
		r := runSeq(&q, "file", keepLog, "disk.seq")
		out.Probes["real_kernel_runs"]++
		if r.violation != nil {
			out.Violation = r.violation
			out.Violation.Msg = "[real kernel] " + out.Violation.Msg
			return out
		}
	}
	out.Sample = map[string]interface{}{"plan": p, "systems": systems}
	return out
}
