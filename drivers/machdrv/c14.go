package main

import (
	"encoding/json"
	"fmt"
	"sort"
	"strings"
	"time"

	"github.com/anishathalye/porcupine"
	"github.com/goose-lang/goose/machine/filesys"

	"verif/harness"
	"verif/model"
	"verif/simrt"
	"verif/simsync"
	"verif/simunix"
)

// C14 — filesystem operations are linearizable under concurrency.

type fsRec struct {
	Client    int
	Op        FsOp
	Call, Ret int64
	Ok        bool
	Data      []byte
	Names     []string
	Refused   bool
	Msg       string
	Fd        filesys.File
}

func (r fsRec) String() string {
	out := ""
	switch {
	case r.Refused:
		out = "PANIC " + r.Msg
	case r.Op.K == "create" || r.Op.K == "link":
		out = fmt.Sprintf("ok=%v fd=%d", r.Ok, r.Fd)
	case r.Op.K == "open":
		out = fmt.Sprintf("fd=%d", r.Fd)
	case r.Op.K == "mkdir":
		out = "ok"
	case r.Op.K == "readat" || r.Op.K == "readall":
		out = model.DescribeBytes(r.Data)
	case r.Op.K == "list":
		out = fmt.Sprint(r.Names)
	}
	return fmt.Sprintf("c%d %v @%d..%d -> %s", r.Client, r.Op, r.Call, r.Ret, out)
}

// doFsOp executes one op for a client; handles maps handle id -> descriptor
// (absent = invalid, the op is skipped by the caller).
func doFsOp(api fsAPI, client int, op FsOp, handles map[int]filesys.File) (rec fsRec) {
	rec.Client, rec.Op = client, op
	rec.Call = simrt.Stamp(client)
	defer func() {
		if r := recover(); r != nil {
			if simrt.IsAbort(r) {
				panic(r)
			}
			rec.Refused = true
			rec.Msg = fmt.Sprint(r)
		}
		rec.Ret = simrt.Stamp(client)
	}()
	switch op.K {
	case "create":
		f, ok := api.Create(op.D, op.N)
		rec.Ok, rec.Fd = ok, f
		if ok {
			handles[op.H] = f
		}
	case "open":
		f := api.Open(op.D, op.N)
		rec.Fd = f
		handles[op.H] = f
	case "append":
		api.Append(handles[op.H], model.Chunk(op.ID, op.Len))
	case "close":
		api.Close(handles[op.H])
		rec.Fd = handles[op.H]
	case "readat":
		rec.Data = api.ReadAt(handles[op.H], op.Off, op.Cnt)
	case "delete":
		api.Delete(op.D, op.N)
	case "link":
		rec.Ok = api.Link(op.D, op.N, op.D2, op.N2)
	case "ac":
		api.AtomicCreate(op.D, op.N, model.Chunk(op.ID, op.Len))
	case "list":
		got := api.List(op.D)
		rec.Names = append([]string(nil), got...)
		// the result belongs to the caller, who may reorder or overwrite it
		for i := range got {
			simrt.Yield(-61)
			got[i] = "#overwritten-by-caller"
		}
		sort.Strings(rec.Names)
	case "mkdir":
		api.fs.Mkdir(op.D)
	case "readall":
		f := api.Open(op.D, op.N)
		rec.Data = api.ReadAt(f, 0, 1<<20)
		api.Close(f)
	}
	return
}

func needsHandle(op FsOp) bool {
	return op.K == "append" || op.K == "close" || op.K == "readat"
}

type fsState struct {
	fs    *model.FS
	canon string
}

func mkState(f *model.FS) fsState { return fsState{fs: f, canon: f.Canon()} }

func fsModel(init *model.FS, exactList bool) porcupine.Model {
	return porcupine.Model{
		Init: func() interface{} { return mkState(init) },
		Equal: func(a, b interface{}) bool {
			return a.(fsState).canon == b.(fsState).canon
		},
		Step: func(state, input, output interface{}) (bool, interface{}) {
			st := state.(fsState)
			op := input.(FsOp)
			r := output.(fsRec)
			m := st.fs.Clone()
			switch op.K {
			case "create":
				want := m.Create(op.H, op.D, op.N)
				return !r.Refused && r.Ok == want, mkState(m)
			case "open":
				if !m.Open(op.H, op.D, op.N) {
					return r.Refused, st
				}
				return !r.Refused, mkState(m)
			case "append":
				if !m.Append(op.H, model.Chunk(op.ID, op.Len)) {
					return false, st
				}
				return !r.Refused, mkState(m)
			case "close":
				m.Close(op.H)
				return !r.Refused, mkState(m)
			case "readat":
				want, ok := m.ReadAt(op.H, op.Off, op.Cnt)
				return ok && !r.Refused && sameBytes(want, r.Data), st
			case "delete":
				if !m.Delete(op.D, op.N) {
					// the name is not there: DirFs refuses (unlinkat fails),
					// MemFs returns without doing anything
					if exactList {
						return !r.Refused, st
					}
					return r.Refused, st
				}
				return !r.Refused, mkState(m)
			case "link":
				want, valid := m.Link(op.D, op.N, op.D2, op.N2)
				if !valid {
					return r.Refused || !r.Ok, st
				}
				return !r.Refused && r.Ok == want, mkState(m)
			case "ac":
				if !m.Dirs[op.D] {
					return r.Refused, st // the directory does not exist (yet): both implementations refuse
				}
				m.AtomicCreate(op.D, op.N, model.Chunk(op.ID, op.Len))
				return !r.Refused, mkState(m)
			case "mkdir":
				m.Mkdir(op.D)
				return !r.Refused, mkState(m)
			case "list":
				if !exactList {
					// DirFs.List is documented as not atomic (several getdents
					// calls); it is judged by listSandwich instead
					return !r.Refused, st
				}
				return !r.Refused && strings.Join(m.List(op.D), "\x00") == strings.Join(r.Names, "\x00"), st
			case "readall":
				want, ok := m.Content(op.D, op.N)
				if !ok {
					return r.Refused, st
				}
				return !r.Refused && sameBytes(want, r.Data), st
			}
			return false, st
		},
		DescribeOperation: func(input, output interface{}) string { return output.(fsRec).String() },
	}
}

type c14 struct{}

func (c14) ID() string                               { return "C14" }
func (c14) Strategy(rng *simrt.Rand) simrt.Strategy  { return pickStrategy(rng, 120) }
func (c14) Expand(json.RawMessage) []json.RawMessage { return nil }

func (c14) Gen(rng *simrt.Rand, tier string, run int) interface{} {
	p := FsPlan{Batch: "conc", System: "mem"}
	if run%3 == 2 {
		p.System = "dir"
		p.HighFds = rng.Chance(1, 4)
		if rng.Chance(1, 2) {
			// List needs several getdents calls: its documented non-atomicity is
			// exercised and judged by the sandwich oracle
			p.DirentsPerCall = 1 + rng.Intn(2)
		}
		if rng.Chance(1, 3) {
			p.StallDen = rng.Pick(6, 30) // time stamps of files and directories change during the run
		}
	}
	p.Dirs = []string{"d0"}
	if rng.Chance(1, 2) {
		p.Dirs = append(p.Dirs, "d1")
	}
	chunk := uint64(0x100)
	nextChunk := func() uint64 { chunk++; return chunk }
	// setup: a stable file and maybe a victim
	p.Setup = append(p.Setup, FsOp{K: "ac", D: "d0", N: "s", ID: nextChunk(), Len: rng.Pick(0, 5, 16, 100)})
	hasVictim := rng.Chance(1, 2)
	if hasVictim {
		p.Setup = append(p.Setup, FsOp{K: "ac", D: "d0", N: "v", ID: nextChunk(), Len: rng.Pick(1, 8)})
	}
	contended := []string{"a", "b"}
	if rng.Chance(1, 2) {
		contended = contended[:1]
	}
	victimTaken := false
	acTaken := map[string]bool{}
	nClients := 2 + rng.Intn(3)
	budget := 9 + rng.Intn(4) // total client ops
	for c := 0; c < nClients && budget > 0; c++ {
		var ops []FsOp
		h := 100 * (c + 1)
		want := 1 + rng.Intn(4)
		for len(ops) < want && budget > 0 {
			d := p.Dirs[rng.Intn(len(p.Dirs))]
			n := contended[rng.Intn(len(contended))]
			add := func(o FsOp) {
				if budget > 0 {
					ops = append(ops, o)
					budget--
				}
			}
			switch rng.Intn(10) {
			case 0, 1, 2: // create; append...; close
				h++
				add(FsOp{K: "create", D: d, N: n, H: h})
				for k := rng.Intn(3); k > 0; k-- {
					add(FsOp{K: "append", H: h, ID: nextChunk(), Len: rng.Pick(1, 8, 8, 24, 100, 5000, 9000, 70000)})
				}
				if rng.Chance(1, 2) {
					add(FsOp{K: "close", H: h})
				}
			case 3, 4: // open; readat; close
				h++
				names := append([]string{"s", "s", "v"}, contended...)
				nm := names[rng.Intn(len(names))]
				dd := d
				if nm == "s" || nm == "v" {
					dd = "d0"
				}
				if nm == "v" && !hasVictim {
					nm = "s"
				}
				add(FsOp{K: "open", D: dd, N: nm, H: h})
				add(FsOp{K: "readat", H: h, Off: uint64(rng.Pick(0, 0, 0, 3, 8)), Cnt: uint64(rng.Pick(1<<16, 1<<16, 8, 5))})
				if rng.Chance(1, 2) {
					add(FsOp{K: "close", H: h})
				}
			case 5:
				add(FsOp{K: "link", D: "d0", N: "s", D2: d, N2: n})
			case 6:
				if hasVictim && !victimTaken {
					victimTaken = true
					add(FsOp{K: "delete", D: "d0", N: "v"})
				} else {
					add(FsOp{K: "list", D: d})
				}
			case 7:
				key := n
				if !acTaken[key] {
					acTaken[key] = true
					add(FsOp{K: "ac", D: d, N: n, ID: nextChunk(), Len: rng.Pick(0, 8, 16, 100)})
				} else {
					add(FsOp{K: "list", D: d})
				}
			default:
				add(FsOp{K: "list", D: d})
			}
		}
		if c == 0 && rng.Chance(1, 3) && budget > 1 {
			// a directory created while the other clients are running; only this
			// client uses it afterwards (so no other call depends on the race)
			ops = append(ops, FsOp{K: "mkdir", D: "dnew"}, FsOp{K: "ac", D: "dnew", N: "z", ID: nextChunk(), Len: 8})
			budget -= 2
		}
		p.Clients = append(p.Clients, ops)
	}
	if p.System == "mem" && len(p.Clients) >= 1 && rng.Chance(1, 4) {
		// a client that makes sure a directory exists although it already does
		// (MemFs.Mkdir is idempotent and keeps the entries; DirFs would refuse)
		c := rng.Intn(len(p.Clients))
		at := rng.Intn(len(p.Clients[c]) + 1)
		for at < len(p.Clients[c]) && needsHandle(p.Clients[c][at]) {
			at++
		}
		op := FsOp{K: "mkdir", D: p.Dirs[rng.Intn(len(p.Dirs))]}
		p.Clients[c] = append(append(append([]FsOp{}, p.Clients[c][:at]...), op), p.Clients[c][at:]...)
	}
	if len(p.Clients) >= 2 && rng.Chance(1, 5) {
		// one descriptor shared by several clients (a common log file): their
		// appends through it are operations like any other and none may be lost
		p.Setup = append(p.Setup, FsOp{K: "create", D: "d0", N: "log", H: 90})
		if rng.Chance(1, 2) {
			p.Setup = append(p.Setup, FsOp{K: "append", H: 90, ID: nextChunk(), Len: rng.Pick(1, 8, 100)})
		}
		for c := range p.Clients {
			for k := rng.Intn(3); k > 0; k-- {
				at := rng.Intn(len(p.Clients[c]) + 1)
				for at < len(p.Clients[c]) && needsHandle(p.Clients[c][at]) {
					at++
				}
				op := FsOp{K: "append", H: 90, ID: nextChunk(), Len: rng.Pick(1, 8, 8, 100, 5000)}
				p.Clients[c] = append(append(append([]FsOp{}, p.Clients[c][:at]...), op), p.Clients[c][at:]...)
			}
		}
	}
	if len(p.Clients) >= 2 && rng.Chance(1, 5) {
		// a name that one client creates while another deletes it (and creates
		// it again): Delete of a name that is not there (yet) is refused by
		// DirFs and is a no-op in MemFs; the model knows both
		x := rng.Intn(len(p.Clients))
		y := (x + 1 + rng.Intn(len(p.Clients)-1)) % len(p.Clients)
		d := p.Dirs[rng.Intn(len(p.Dirs))]
		insert := func(c int, ops ...FsOp) {
			at := rng.Intn(len(p.Clients[c]) + 1)
			// never between a create/open and the operations on its handle
			for at < len(p.Clients[c]) && needsHandle(p.Clients[c][at]) {
				at++
			}
			p.Clients[c] = append(append(append([]FsOp{}, p.Clients[c][:at]...), ops...), p.Clients[c][at:]...)
		}
		hx, hy := 100*(x+1)+60, 100*(y+1)+60
		xs := []FsOp{{K: "create", D: d, N: "r", H: hx}}
		if rng.Chance(1, 2) {
			xs = append(xs, FsOp{K: "append", H: hx, ID: nextChunk(), Len: 8})
		}
		ys := []FsOp{{K: "delete", D: d, N: "r"}}
		if rng.Chance(2, 3) {
			ys = append(ys, FsOp{K: "create", D: d, N: "r", H: hy})
		}
		if rng.Chance(1, 3) {
			ys = append(ys, FsOp{K: "delete", D: d, N: "r"})
		}
		insert(x, xs...)
		insert(y, ys...)
	}
	return p
}

func (c14) Shrink(pj json.RawMessage) []json.RawMessage {
	var p FsPlan
	json.Unmarshal(pj, &p)
	var out []json.RawMessage
	add := func(q FsPlan) {
		b, _ := json.Marshal(q)
		out = append(out, b)
	}
	for i := range p.Clients {
		if len(p.Clients) > 1 {
			q := p
			q.Clients = append(append([][]FsOp{}, p.Clients[:i]...), p.Clients[i+1:]...)
			add(q)
		}
	}
	for i := range p.Clients {
		for j := len(p.Clients[i]) - 1; j >= 0; j-- {
			// dropping an op that binds a handle drops its users too
			op := p.Clients[i][j]
			var ops []FsOp
			for k, o := range p.Clients[i] {
				if k == j {
					continue
				}
				if (op.K == "create" || op.K == "open") && needsHandle(o) && o.H == op.H {
					continue
				}
				ops = append(ops, o)
			}
			q := p
			q.Clients = append([][]FsOp{}, p.Clients...)
			q.Clients[i] = ops
			add(q)
		}
	}
	if len(p.Setup) > 1 {
		q := p
		q.Setup = p.Setup[:1]
		uses := false
		for _, c := range p.Clients {
			for _, o := range c {
				if o.N == "v" {
					uses = true
				}
			}
		}
		if !uses {
			add(q)
		}
	}
	return out
}

func (c14) Exec(pj json.RawMessage, tape *simrt.Tape, keepLog bool) harness.RunOut {
	var p FsPlan
	if err := json.Unmarshal(pj, &p); err != nil {
		return harness.RunOut{Infra: err.Error()}
	}
	env, err := newFsEnv(p.System, false, simunix.Config{HighFds: p.HighFds, DirentsPerCall: p.DirentsPerCall})
	if err != nil {
		return harness.RunOut{Infra: err.Error()}
	}
	s := simrt.New(simrt.Config{DaemonsOK: true, Tape: tape, KeepLog: keepLog, StallDen: p.StallDen})
	simunix.Attach(s, env.k)
	recs := make([][]fsRec, len(p.Clients))
	var finals []fsRec
	init := model.NewFS()
	var setupViol *harness.Violation
	res := s.Run(func() {
		api, _ := env.open()
		for _, d := range p.Dirs {
			api.fs.Mkdir(d)
			init.Mkdir(d)
		}
		chk := &fsChecker{api: api, m: init, files: map[int]filesys.File{}, open: map[filesys.File]int{}, system: p.System, probes: map[string]int{}, prefix: "fs.conc.setup"}
		for i, op := range p.Setup {
			if !chk.step(i, op) {
				setupViol = chk.viol
				return
			}
		}
		var wg simsync.WaitGroup
		wg.Add(len(p.Clients))
		for ci := range p.Clients {
			ci := ci
			simrt.GoNamed(fmt.Sprintf("c%d", ci), func() {
				defer wg.Done()
				handles := map[int]filesys.File{}
				for h, f := range chk.files {
					handles[h] = f // descriptors opened by the setup are shared by all clients
				}
				for _, op := range p.Clients[ci] {
					if needsHandle(op) {
						if _, ok := handles[op.H]; !ok {
							continue // its Create failed / Open was refused
						}
					}
					r := doFsOp(api, ci, op, handles)
					recs[ci] = append(recs[ci], r)
					if op.K == "close" && !r.Refused {
						delete(handles, op.H)
					}
					if r.Refused && (op.K == "open") {
						delete(handles, op.H)
					}
				}
			})
		}
		wg.Wait()
		// final sequential reads of every name the plan touches
		seen := map[string]bool{}
		addFinal := func(d, n string) {
			if n == "" || seen[d+"/"+n] {
				return
			}
			seen[d+"/"+n] = true
			finals = append(finals, doFsOp(api, 99, FsOp{K: "readall", D: d, N: n}, nil))
		}
		for _, o := range p.Setup {
			addFinal(o.D, o.N)
		}
		for _, c := range p.Clients {
			for _, o := range c {
				if o.K == "create" || o.K == "ac" {
					addFinal(o.D, o.N)
				}
				if o.K == "link" {
					addFinal(o.D2, o.N2)
				}
			}
		}
	})
	out := harness.RunOut{Fingerprint: res.Fingerprint, Events: res.Events, SimTime: res.SimTime,
		Probes: s.Probes, Faults: s.Faults, Sched: tape.Sched, Aux: tape.Aux, Log: res.Log}
	if setupViol != nil {
		out.Violation = setupViol
		return out
	}
	var all []fsRec
	for _, r := range recs {
		all = append(all, r...)
	}
	all = append(all, finals...)
	if keepLog {
		for _, r := range all {
			out.Log = append(out.Log, "history: "+r.String())
		}
	}
	out.Sample = map[string]interface{}{"system": p.System, "setup": opStrings(p.Setup), "clients": clientStrings(p.Clients), "events": res.Events}
	switch res.Outcome {
	case simrt.Deadlock:
		out.Violation = viol("fs.conc.deadlock", fmt.Sprintf("[%s] an API call never returns: %s", p.System, res.Detail))
		return out
	case simrt.StepCap:
		out.Inconclusive = "inconclusive-steps"
		return out
	}
	// overlap measure
	for i, a := range all {
		for j, b := range all {
			if i < j && a.Client != b.Client && a.Call < b.Ret && b.Call < a.Ret {
				out.NonTrivial = true
			}
		}
	}
	// explicit invariant: descriptors open at the same time are distinct
	type span struct {
		fd       filesys.File
		from, to int64
		who      string
	}
	var spans []span
	for _, r := range all {
		if (r.Op.K == "create" && r.Ok || r.Op.K == "open") && !r.Refused {
			sp := span{fd: r.Fd, from: r.Ret, to: 1 << 62, who: r.String()}
			for _, c := range all {
				if c.Client == r.Client && c.Op.K == "close" && c.Op.H == r.Op.H && !c.Refused {
					sp.to = c.Call
				}
			}
			spans = append(spans, sp)
		}
	}
	for i, a := range spans {
		for j, b := range spans {
			if i < j && a.fd == b.fd && a.from < b.to && b.from < a.to {
				out.Violation = viol("fs.conc.dup-fd", fmt.Sprintf("[%s] descriptor %d was handed out twice while still open: %s and %s", p.System, a.fd, a.who, b.who))
				return out
			}
		}
	}
	ops := make([]porcupine.Operation, 0, len(all))
	for _, r := range all {
		ops = append(ops, porcupine.Operation{ClientId: r.Client, Input: r.Op, Output: r, Call: r.Call, Return: r.Ret})
	}
	if p.System != "mem" {
		if v := listSandwich(p.System, init, all); v != nil {
			out.Violation = v
			return out
		}
	}
	switch porcupine.CheckOperationsTimeout(fsModel(init, p.System == "mem"), ops, 20*time.Second) {
	case porcupine.Illegal:
		var lines []string
		for _, r := range all {
			lines = append(lines, r.String())
		}
		o := "fs.conc.nonlinearizable"
		for _, r := range all {
			if r.Refused && r.Op.K != "open" && r.Op.K != "readall" {
				o = "fs.conc.panic"
			}
		}
		out.Violation = viol(o, fmt.Sprintf("[%s] history is not linearizable w.r.t. the filesystem model:\n    %s", p.System, strings.Join(lines, "\n    ")))
	case porcupine.Unknown:
		out.Inconclusive = "porcupine-timeout"
	}
	return out
}

func clientStrings(cs [][]FsOp) [][]string {
	var out [][]string
	for _, c := range cs {
		out = append(out, opStrings(c))
	}
	return out
}

// listSandwich is the oracle for a non-atomic List: every name that is in the
// directory during the whole call must be returned, no name that is absent
// during the whole call may be returned, and no name twice.
func listSandwich(system string, init *model.FS, all []fsRec) *harness.Violation {
	for _, l := range all {
		if l.Op.K != "list" || l.Refused {
			continue
		}
		got := map[string]int{}
		for _, n := range l.Names {
			got[n]++
			if got[n] > 1 {
				return viol("fs.conc.list", fmt.Sprintf("[%s] %v returned %q twice", system, l.Op, n))
			}
		}
		names := map[string]bool{}
		for _, n := range init.List(l.Op.D) {
			names[n] = true
		}
		for _, r := range all {
			if r.Op.K == "create" || r.Op.K == "ac" {
				if r.Op.D == l.Op.D {
					names[r.Op.N] = true
				}
			}
			if r.Op.K == "link" && r.Op.D2 == l.Op.D {
				names[r.Op.N2] = true
			}
		}
		for n := range got {
			names[n] = true
		}
		for n := range names {
			must := init.Exists(l.Op.D, n)
			may := must
			for _, r := range all {
				adds := (r.Op.K == "create" || r.Op.K == "ac") && r.Op.D == l.Op.D && r.Op.N == n || r.Op.K == "link" && r.Op.D2 == l.Op.D && r.Op.N2 == n
				if adds && !r.Refused {
					if r.Ret < l.Call && (r.Op.K == "ac" || r.Ok) {
						must = true
					}
					if r.Call < l.Ret {
						may = true
					}
				}
			}
			for _, r := range all {
				if r.Op.K == "delete" && r.Op.D == l.Op.D && r.Op.N == n && r.Call < l.Ret {
					must = false
				}
			}
			if must && got[n] == 0 {
				return viol("fs.conc.list", fmt.Sprintf("[%s] %v at [%d,%d] returned %v without %q, which was in the directory during the whole call", system, l.Op, l.Call, l.Ret, l.Names, n))
			}
			if !may && got[n] > 0 {
				return viol("fs.conc.list", fmt.Sprintf("[%s] %v at [%d,%d] returned %q, which was never in the directory before the call ended", system, l.Op, l.Call, l.Ret, n))
			}
		}
	}
	return nil
}
