package main

import (
	"encoding/json"
	"fmt"
	"os"
	"path/filepath"
	"sort"
	"strings"
	"syscall"

	"verif/harness"
	"verif/simrt"
	"verif/simunix"
)

// Stub validation: identical system-call scripts are executed against the
// simulated kernel and against the real Linux kernel (simunix pass-through on
// a fresh temporary directory) and must give identical results. A mismatch is
// a bug of the simulated kernel (INFRA), never a violation.

type kop struct {
	op     string
	a, b   string
	fd     int // index into the script's descriptor table
	n      int
	off    int64
	flags  int
	whence int
}

func genKScript(rng *simrt.Rand, n int) []kop {
	names := []string{"a", "b", "c", "d/x", "d/y", "d", "e"}
	var ops []kop
	nfds := 0
	ops = append(ops, kop{op: "mkdirat", a: "d"})
	for len(ops) < n {
		name := names[rng.Intn(len(names))]
		switch rng.Intn(20) {
		case 0, 1, 2:
			acc := []int{syscall.O_RDONLY, syscall.O_WRONLY, syscall.O_RDWR}[rng.Intn(3)]
			fl := acc
			if rng.Chance(1, 2) {
				fl |= syscall.O_CREAT
				if rng.Chance(1, 3) {
					fl |= syscall.O_EXCL
				}
			}
			if acc != syscall.O_RDONLY && rng.Chance(1, 4) {
				fl |= syscall.O_TRUNC
			}
			if acc != syscall.O_RDONLY && rng.Chance(1, 4) {
				fl |= syscall.O_APPEND
			}
			ops = append(ops, kop{op: "openat", a: name, flags: fl})
			nfds++
		case 3:
			if nfds > 0 {
				ops = append(ops, kop{op: "close", fd: rng.Intn(nfds)})
			}
		case 4, 5, 6:
			if nfds > 0 {
				ops = append(ops, kop{op: "write", fd: rng.Intn(nfds), n: rng.Pick(0, 1, 7, 100, 5000)})
			}
		case 7:
			if nfds > 0 {
				ops = append(ops, kop{op: "pwrite", fd: rng.Intn(nfds), n: rng.Pick(1, 7, 100), off: int64(rng.Pick(0, 3, 50, 6000))})
			}
		case 8, 9:
			if nfds > 0 {
				ops = append(ops, kop{op: "read", fd: rng.Intn(nfds), n: rng.Pick(0, 1, 10, 200, 8000)})
			}
		case 10:
			if nfds > 0 {
				ops = append(ops, kop{op: "pread", fd: rng.Intn(nfds), n: rng.Pick(1, 10, 200), off: int64(rng.Pick(0, 2, 99, 7000))})
			}
		case 11:
			if nfds > 0 {
				ops = append(ops, kop{op: "seek", fd: rng.Intn(nfds), off: int64(rng.Pick(0, 1, 5, 100, -1)), whence: rng.Intn(3)})
			}
		case 12:
			if nfds > 0 {
				ops = append(ops, kop{op: "ftruncate", fd: rng.Intn(nfds), off: int64(rng.Pick(0, 3, 100, 9000))})
			}
		case 13:
			if nfds > 0 {
				ops = append(ops, kop{op: "fstat", fd: rng.Intn(nfds)})
			}
		case 14:
			ops = append(ops, kop{op: "mkdirat", a: name})
		case 15:
			ops = append(ops, kop{op: "unlinkat", a: name, flags: []int{0, 0, simunix.AT_REMOVEDIR}[rng.Intn(3)]})
		case 16:
			ops = append(ops, kop{op: "renameat", a: name, b: names[rng.Intn(len(names))]})
		case 17:
			ops = append(ops, kop{op: "linkat", a: name, b: names[rng.Intn(len(names))]})
		case 18:
			ops = append(ops, kop{op: "list", a: []string{".", "d"}[rng.Intn(2)]})
		default:
			if nfds > 0 {
				if rng.Chance(1, 3) {
					ops = append(ops, kop{op: "fallocate", fd: rng.Intn(nfds), flags: rng.Pick(0, 1, 3, 3, 0x10, 0x11, 2), off: int64(rng.Pick(0, 3, 100, 5000)), n: rng.Pick(0, 1, 50, 4096, 9000)})
				} else if rng.Chance(1, 2) {
					ops = append(ops, kop{op: "dup", fd: rng.Intn(nfds)})
					nfds++
				} else {
					ops = append(ops, kop{op: "fsync", fd: rng.Intn(nfds)})
				}
			}
		}
	}
	return ops
}

func errnoOf(err error) int {
	if err == nil {
		return 0
	}
	if e, ok := err.(syscall.Errno); ok {
		return int(e)
	}
	return -1
}

// runKScript executes the script through the simunix API (simulated or
// pass-through) and returns one result line per operation.
func runKScript(ops []kop, real bool) ([]string, error) {
	k := simunix.NewKernel(simunix.Config{})
	root := "/"
	if real {
		k.Real = true
		d, err := os.MkdirTemp(".", "verif-kv-")
		if err != nil {
			return nil, err
		}
		d, _ = filepath.Abs(d)
		defer os.RemoveAll(d)
		root = d
	}
	s := simrt.New(simrt.Config{DaemonsOK: true, Tape: simrt.Replay(nil, nil), MaxSteps: 1000000})
	simunix.Attach(s, k)
	var out []string
	s.Run(func() {
		rootFd, err := simunix.Open(root, simunix.O_DIRECTORY|simunix.O_RDONLY, 0)
		if err != nil {
			out = append(out, "open root: "+err.Error())
			return
		}
		var fds []int // -1 = failed open / closed
		fdOf := func(i int) int {
			if i < len(fds) {
				return fds[i]
			}
			return -1
		}
		chunk := byte(1)
		for _, o := range ops {
			var line string
			switch o.op {
			case "openat":
				fd, err := simunix.Openat(rootFd, o.a, o.flags, 0644)
				if err != nil {
					fd = -1
				}
				fds = append(fds, fd)
				line = fmt.Sprintf("ok=%v errno=%d", err == nil, errnoOf(err))
			case "close":
				if fd := fdOf(o.fd); fd >= 0 {
					// close only descriptors not shared through dup bookkeeping
					err := simunix.Close(fd)
					fds[o.fd] = -1
					line = fmt.Sprintf("errno=%d", errnoOf(err))
				} else {
					line = "skipped"
				}
			case "dup":
				if fd := fdOf(o.fd); fd >= 0 {
					nfd, err := simunix.Dup(fd)
					if err != nil {
						nfd = -1
					}
					fds = append(fds, nfd)
					line = fmt.Sprintf("ok=%v errno=%d", err == nil, errnoOf(err))
				} else {
					fds = append(fds, -1)
					line = "skipped"
				}
			case "write", "pwrite":
				if fd := fdOf(o.fd); fd >= 0 {
					buf := make([]byte, o.n)
					for i := range buf {
						buf[i] = chunk
					}
					chunk++
					var n int
					var err error
					if o.op == "write" {
						n, err = simunix.Write(fd, buf)
					} else {
						n, err = simunix.Pwrite(fd, buf, o.off)
					}
					line = fmt.Sprintf("n=%d errno=%d", n, errnoOf(err))
				} else {
					line = "skipped"
				}
			case "read", "pread":
				if fd := fdOf(o.fd); fd >= 0 {
					buf := make([]byte, o.n)
					var n int
					var err error
					if o.op == "read" {
						n, err = simunix.Read(fd, buf)
					} else {
						n, err = simunix.Pread(fd, buf, o.off)
					}
					if n < 0 {
						n = 0
					}
					line = fmt.Sprintf("n=%d errno=%d data=%x", n, errnoOf(err), summarize(buf[:n]))
				} else {
					line = "skipped"
				}
			case "seek":
				if fd := fdOf(o.fd); fd >= 0 {
					var st simunix.Stat_t
					if simunix.Fstat(fd, &st) == nil && st.Mode&simunix.S_IFMT == simunix.S_IFDIR {
						line = "skipped (directory streams are positioned by getdents cookies)"
						break
					}
					off, err := simunix.Seek(fd, o.off, o.whence)
					if err != nil {
						off = -1
					}
					line = fmt.Sprintf("off=%d errno=%d", off, errnoOf(err))
				} else {
					line = "skipped"
				}
			case "ftruncate":
				if fd := fdOf(o.fd); fd >= 0 {
					line = fmt.Sprintf("errno=%d", errnoOf(simunix.Ftruncate(fd, o.off)))
				} else {
					line = "skipped"
				}
			case "fallocate":
				if fd := fdOf(o.fd); fd >= 0 {
					line = fmt.Sprintf("errno=%d", errnoOf(simunix.Fallocate(fd, uint32(o.flags), o.off, int64(o.n))))
				} else {
					line = "skipped"
				}
			case "fsync":
				if fd := fdOf(o.fd); fd >= 0 {
					line = fmt.Sprintf("errno=%d", errnoOf(simunix.Fsync(fd)))
				} else {
					line = "skipped"
				}
			case "fstat":
				if fd := fdOf(o.fd); fd >= 0 {
					var st simunix.Stat_t
					err := simunix.Fstat(fd, &st)
					isReg := st.Mode&simunix.S_IFMT == simunix.S_IFREG
					size := st.Size
					if !isReg {
						size = 0
					}
					line = fmt.Sprintf("errno=%d reg=%v size=%d nlink=%d", errnoOf(err), isReg, size, nlinkOf(&st, isReg))
				} else {
					line = "skipped"
				}
			case "mkdirat":
				line = fmt.Sprintf("errno=%d", errnoOf(simunix.Mkdirat(rootFd, o.a, 0755)))
			case "unlinkat":
				line = fmt.Sprintf("errno=%d", errnoOf(simunix.Unlinkat(rootFd, o.a, o.flags)))
			case "renameat":
				line = fmt.Sprintf("errno=%d", errnoOf(simunix.Renameat(rootFd, o.a, rootFd, o.b)))
			case "linkat":
				line = fmt.Sprintf("errno=%d", errnoOf(simunix.Linkat(rootFd, o.a, rootFd, o.b, 0)))
			case "list":
				d, err := simunix.Openat(rootFd, o.a, simunix.O_DIRECTORY|simunix.O_RDONLY, 0)
				if err != nil {
					line = fmt.Sprintf("errno=%d", errnoOf(err))
					break
				}
				var names []string
				buf := make([]byte, 4096)
				for {
					n, err := simunix.ReadDirent(d, buf)
					if err != nil || n <= 0 {
						break
					}
					_, _, names = simunix.ParseDirent(buf[:n], -1, names)
				}
				simunix.Close(d)
				sort.Strings(names)
				line = "names=" + strings.Join(names, ",")
			}
			out = append(out, fmt.Sprintf("%s(%s,%s,fd%d,n=%d,off=%d,fl=%#x): %s", o.op, o.a, o.b, o.fd, o.n, o.off, o.flags, line))
		}
		for _, fd := range fds {
			if fd >= 0 {
				simunix.Close(fd)
			}
		}
		simunix.Close(rootFd)
	})
	return out, nil
}

func nlinkOf(st *simunix.Stat_t, isReg bool) uint64 {
	if !isReg {
		return 0 // directory link counts differ between file systems
	}
	return uint64(st.Nlink)
}

func summarize(b []byte) []byte {
	if len(b) <= 24 {
		return b
	}
	h := simrt.HashString(string(b))
	return append(append([]byte{}, b[:8]...), byte(h), byte(h>>8), byte(h>>16), byte(h>>24))
}

// validateKernel runs one script on both kernels; it returns "" when they agree.
func validateKernel(seed uint64) string {
	ops := genKScript(simrt.NewRand(seed), 30)
	sim, err := runKScript(ops, false)
	if err != nil {
		return err.Error()
	}
	real, err := runKScript(ops, true)
	if err != nil {
		return err.Error()
	}
	for i := 0; i < len(sim) || i < len(real); i++ {
		a, b := "<none>", "<none>"
		if i < len(sim) {
			a = sim[i]
		}
		if i < len(real) {
			b = real[i]
		}
		if a != b {
			return fmt.Sprintf("simulated kernel disagrees with Linux at operation %d of script seed %d:\n  sim : %s\n  real: %s\n  script so far: %v", i, seed, a, b, sim[:i])
		}
	}
	return ""
}

// kv is a debugging entry (driver -check KV): kernel validation scripts only.
type kv struct{}

func (kv) ID() string                               { return "KV" }
func (kv) Strategy(rng *simrt.Rand) simrt.Strategy  { return simrt.Strategy{Kind: "seq"} }
func (kv) Expand(json.RawMessage) []json.RawMessage { return nil }
func (kv) Shrink(json.RawMessage) []json.RawMessage { return nil }
func (kv) Gen(rng *simrt.Rand, tier string, run int) interface{} {
	return map[string]uint64{"seed": rng.Uint64()}
}
func (kv) Exec(pj json.RawMessage, tape *simrt.Tape, keepLog bool) harness.RunOut {
	var p map[string]uint64
	json.Unmarshal(pj, &p)
	out := harness.RunOut{Fingerprint: p["seed"], NonTrivial: true}
	if msg := validateKernel(p["seed"]); msg != "" {
		out.Infra = msg
	}
	return out
}
