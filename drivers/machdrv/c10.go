package main

import (
	"encoding/json"
	"fmt"
	"sort"
	"time"

	"github.com/anishathalye/porcupine"
	"github.com/goose-lang/goose/machine/disk"

	"verif/harness"
	"verif/model"
	"verif/simrt"
	"verif/simsync"
	"verif/simunix"
)

// C10 — concurrent disk operations are linearizable per block.

type DiskOp struct {
	Kind string `json:"k"` // read, readto, write, size
	Addr uint64 `json:"a"`
	ID   uint64 `json:"id,omitempty"` // unique write id
}

type C10Plan struct {
	Impl    string     `json:"impl"` // mem | file
	Size    uint64     `json:"size"`
	Clients [][]DiskOp `json:"clients"`
	Split   bool       `json:"split_pwrite,omitempty"`
}

type opRec struct {
	Client    int
	Op        DiskOp
	Call, Ret int64
	Val       uint64
	Uniform   bool
	Second    uint64
	Refused   bool
	PanicMsg  string
	// Data: the bytes a read returned, kept when they are not one write's
	// block (judged byte by byte for the file disk)
	Data []byte
}

type c10 struct{}

func (c10) ID() string { return "C10" }

func (c10) Strategy(rng *simrt.Rand) simrt.Strategy { return pickStrategy(rng, 60) }

func pickStrategy(rng *simrt.Rand, est int) simrt.Strategy {
	switch rng.Intn(9) {
	case 8:
		return simrt.Strategy{Kind: "syncpct", Depth: 1 + rng.Intn(3), EstLen: est/3 + 4}
	case 0, 1:
		return simrt.Strategy{Kind: "uniform"}
	case 2:
		return simrt.Strategy{Kind: "sticky", Den: 2}
	case 3:
		return simrt.Strategy{Kind: "sticky", Den: 8}
	case 4:
		return simrt.Strategy{Kind: "sticky", Den: 32}
	case 5:
		return simrt.Strategy{Kind: "pct", Depth: 1, EstLen: est}
	case 6:
		return simrt.Strategy{Kind: "pct", Depth: 2, EstLen: est}
	default:
		return simrt.Strategy{Kind: "pct", Depth: 3, EstLen: est}
	}
}

func (c10) Gen(rng *simrt.Rand, tier string, run int) interface{} {
	p := C10Plan{Impl: "mem"}
	if run%3 == 2 {
		p.Impl = "file"
		p.Split = rng.Chance(1, 2)
	}
	p.Size = uint64(1 + rng.Intn(3))
	nAddr := 1 + rng.Intn(3)
	if rng.Chance(1, 3) {
		nAddr = 1
	}
	// one plan in six: a larger disk, addresses a power of two apart (striped
	// locks and counters, chunked growth) and one client that writes a long run
	// of blocks (write buffers that fill up)
	var pool []uint64
	bulk := false
	if rng.Chance(1, 6) {
		p.Size = rng.PickU64(17, 40, 65, 130)
		stride := rng.PickU64(16, 16, 32, 64)
		for a := uint64(rng.Intn(2)); a < p.Size && len(pool) < 4; a += stride {
			pool = append(pool, a)
		}
		pool = append(pool, uint64(rng.Intn(int(p.Size))))
		bulk = rng.Chance(1, 2)
	}
	nClients := 2 + rng.Intn(3)
	// a tiny content alphabet in a third of the plans: the same block content is
	// written again and again (content-addressed shortcuts, caches keyed by value)
	tinyAlphabet := rng.Chance(1, 3)
	// in another quarter, unique contents that agree with one another (and with
	// the zero block) on long stretches: only a prefix, a suffix or one word set
	shaped := !tinyAlphabet && rng.Chance(1, 3)
	id := uint64(0)
	for c := 0; c < nClients; c++ {
		n := 1 + rng.Intn(5)
		var ops []DiskOp
		for i := 0; i < n; i++ {
			a := uint64(rng.Intn(nAddr))
			if a >= p.Size {
				a = p.Size - 1
			}
			if pool != nil {
				a = pool[rng.Intn(len(pool))]
			}
			if rng.Chance(1, 25) {
				a = p.Size + uint64(rng.Intn(2)) // out of range: must be refused
			}
			switch rng.Intn(10) {
			case 0, 1, 2, 3:
				id++
				w := DiskOp{Kind: "write", Addr: a, ID: 0x1000*uint64(c+1) + id}
				if shaped {
					w.ID = model.Shaped(w.ID, rng.Intn(5))
				} else if tinyAlphabet || rng.Chance(1, 6) {
					// content that was (or will be) written before: block 0xEE / 0xEF / zeros
					w.ID = []uint64{0xEE, 0xEF, 0xEE, 0}[rng.Intn(4)]
				}
				ops = append(ops, w)
			case 4, 5, 6:
				ops = append(ops, DiskOp{Kind: "read", Addr: a})
			case 7, 8:
				ops = append(ops, DiskOp{Kind: "readto", Addr: a})
			default:
				ops = append(ops, DiskOp{Kind: "size"})
			}
		}
		p.Clients = append(p.Clients, ops)
	}
	if bulk {
		// the other clients keep reading meanwhile
		for c := range p.Clients {
			for k := 40 + rng.Intn(40); k > 0; k-- {
				a := pool[rng.Intn(len(pool))]
				if rng.Chance(1, 2) {
					a = (a + uint64(rng.Intn(40))) % p.Size
				}
				p.Clients[c] = append(p.Clients[c], DiskOp{Kind: rng.PickStr("read", "readto"), Addr: a})
			}
		}
		// 34-70 writes in a row by one more client, over the pool and its neighbours
		var ops []DiskOp
		n := 34 + rng.Intn(37)
		for i := 0; i < n; i++ {
			id++
			a := (pool[rng.Intn(len(pool))] + uint64(i)) % p.Size
			if rng.Chance(1, 3) {
				a = pool[rng.Intn(len(pool))]
			}
			ops = append(ops, DiskOp{Kind: "write", Addr: a, ID: 0x9000 + id})
		}
		p.Clients = append(p.Clients, ops)
	}
	return p
}

func (c10) Expand(json.RawMessage) []json.RawMessage { return nil }

func (c10) Shrink(pj json.RawMessage) []json.RawMessage {
	var p C10Plan
	json.Unmarshal(pj, &p)
	var out []json.RawMessage
	add := func(q C10Plan) {
		b, _ := json.Marshal(q)
		out = append(out, b)
	}
	for i := range p.Clients {
		if len(p.Clients) <= 1 {
			break
		}
		q := p
		q.Clients = append(append([][]DiskOp{}, p.Clients[:i]...), p.Clients[i+1:]...)
		add(q)
	}
	for i := range p.Clients {
		for j := range p.Clients[i] {
			q := p
			q.Clients = append([][]DiskOp{}, p.Clients...)
			q.Clients[i] = append(append([]DiskOp{}, p.Clients[i][:j]...), p.Clients[i][j+1:]...)
			add(q)
		}
	}
	if p.Split {
		q := p
		q.Split = false
		add(q)
	}
	return out
}

// doDiskOp performs one operation, recording stamps and outcome.
func doDiskOp(d disk.Disk, client int, op DiskOp) (rec opRec) {
	rec.Client, rec.Op = client, op
	rec.Uniform = true
	rec.Call = simrt.Stamp(client)
	defer func() {
		if r := recover(); r != nil {
			if simrt.IsAbort(r) {
				panic(r)
			}
			rec.Refused = true
			rec.PanicMsg = fmt.Sprint(r)
		}
		rec.Ret = simrt.Stamp(client)
	}()
	switch op.Kind {
	case "write":
		d.Write(op.Addr, model.MkBlock(op.ID, model.BlockSize))
	case "read":
		b := d.Read(op.Addr)
		if len(b) != model.BlockSize {
			rec.Uniform = false
			rec.PanicMsg = fmt.Sprintf("Read returned %d bytes", len(b))
			return
		}
		rec.Val, rec.Uniform, rec.Second = model.BlockID(b)
		rec.Data = b
	case "readto":
		b := make([]byte, model.BlockSize)
		for i := range b {
			b[i] = 0xA5
		}
		d.ReadTo(op.Addr, b)
		rec.Val, rec.Uniform, rec.Second = model.BlockID(b)
		rec.Data = b
	case "size":
		rec.Val = d.Size()
	}
	return
}

func (c10) Exec(pj json.RawMessage, tape *simrt.Tape, keepLog bool) harness.RunOut {
	var p C10Plan
	if err := json.Unmarshal(pj, &p); err != nil {
		return harness.RunOut{Infra: err.Error()}
	}
	s := simrt.New(simrt.Config{DaemonsOK: true, Tape: tape, KeepLog: keepLog})
	k := simunix.NewKernel(simunix.Config{SplitPwrite: p.Split})
	simunix.Attach(s, k)
	recs := make([][]opRec, len(p.Clients))
	var openErr error
	res := s.Run(func() {
		var d disk.Disk
		if p.Impl == "mem" {
			d = disk.NewMemDisk(p.Size)
		} else {
			fd, err := disk.NewFileDisk("/disk.img", p.Size)
			if err != nil {
				openErr = err
				return
			}
			d = fd
		}
		var wg simsync.WaitGroup
		wg.Add(len(p.Clients))
		for ci := range p.Clients {
			ci := ci
			simrt.GoNamed(fmt.Sprintf("c%d", ci), func() {
				defer wg.Done()
				for _, op := range p.Clients[ci] {
					recs[ci] = append(recs[ci], doDiskOp(d, ci, op))
				}
			})
		}
		wg.Wait()
	})
	out := harness.RunOut{Fingerprint: res.Fingerprint, Events: res.Events, SimTime: res.SimTime,
		Probes: s.Probes, Faults: s.Faults, Sched: tape.Sched, Aux: tape.Aux, Log: res.Log}
	out.Sample = map[string]interface{}{"plan": p, "events": res.Events, "switches": res.Switches}
	if openErr != nil {
		out.Violation = &harness.Violation{Oracle: "disk.conc.open", Key: "disk.conc.open", Msg: "NewFileDisk failed without any fault: " + openErr.Error()}
		return out
	}
	switch res.Outcome {
	case simrt.Deadlock:
		out.Violation = &harness.Violation{Oracle: "disk.conc.deadlock", Key: "disk.conc.deadlock", Msg: "an API call never returns: " + res.Detail}
		return out
	case simrt.StepCap:
		out.Inconclusive = "inconclusive-steps"
		return out
	}
	var all []opRec
	for _, r := range recs {
		all = append(all, r...)
	}
	if keepLog {
		for _, r := range all {
			out.Log = append(out.Log, fmt.Sprintf("history: c%d %s(%d id=%#x) call=%d ret=%d -> val=%#x uniform=%v refused=%v %s", r.Client, r.Op.Kind, r.Op.Addr, r.Op.ID, r.Call, r.Ret, r.Val, r.Uniform, r.Refused, r.PanicMsg))
		}
	}
	out.NonTrivial = overlapOnAddr(all)
	if p.Impl == "mem" {
		out.Violation = checkMemHistory(p.Size, all)
	} else {
		out.Violation = checkFileHistory(p.Size, all)
	}
	return out
}

// overlapOnAddr: at least two operations on one address overlapped in time and
// one of them was a write.
func overlapOnAddr(all []opRec) bool {
	for i, a := range all {
		if a.Op.Kind != "write" {
			continue
		}
		for j, b := range all {
			if i == j || b.Op.Kind == "size" || b.Op.Addr != a.Op.Addr || a.Client == b.Client {
				continue
			}
			if a.Call < b.Ret && b.Call < a.Ret {
				return true
			}
		}
	}
	return false
}

type regIn struct {
	write bool
	id    uint64
}

var regModel = porcupine.Model{
	Init: func() interface{} { return uint64(0) },
	Step: func(state, input, output interface{}) (bool, interface{}) {
		in := input.(regIn)
		if in.write {
			return true, in.id
		}
		return output.(uint64) == state.(uint64), state
	},
	DescribeOperation: func(input, output interface{}) string {
		in := input.(regIn)
		if in.write {
			return fmt.Sprintf("write(%#x)", in.id)
		}
		return fmt.Sprintf("read -> %#x", output.(uint64))
	},
}

func viol(oracle, msg string) *harness.Violation {
	return &harness.Violation{Oracle: oracle, Key: oracle, Msg: msg}
}

// direct checks common to both implementations: refusal exactly when out of
// range, Size constant.
func checkRefusalAndSize(size uint64, all []opRec, prefix string) *harness.Violation {
	for _, r := range all {
		switch r.Op.Kind {
		case "size":
			if r.Refused || r.Val != size {
				return viol(prefix+".size", fmt.Sprintf("Size() returned %d (refused=%v %s), disk was created with %d blocks", r.Val, r.Refused, r.PanicMsg, size))
			}
		default:
			want := r.Op.Addr >= size
			if r.Refused != want {
				return viol(prefix+".refusal", fmt.Sprintf("client %d %s(addr %d) on a %d-block disk: refused=%v (%s), expected refused=%v", r.Client, r.Op.Kind, r.Op.Addr, size, r.Refused, r.PanicMsg, want))
			}
		}
	}
	return nil
}

func checkMemHistory(size uint64, all []opRec) *harness.Violation {
	if v := checkRefusalAndSize(size, all, "disk.conc"); v != nil {
		return v
	}
	for _, r := range all {
		if (r.Op.Kind == "read" || r.Op.Kind == "readto") && !r.Refused && !r.Uniform {
			return viol("disk.conc.torn", fmt.Sprintf("client %d %s(addr %d) returned a torn block: words %#x and %#x (%s)", r.Client, r.Op.Kind, r.Op.Addr, r.Val, r.Second, r.PanicMsg))
		}
	}
	byAddr := map[uint64][]porcupine.Operation{}
	for _, r := range all {
		if r.Refused || r.Op.Kind == "size" {
			continue
		}
		o := porcupine.Operation{ClientId: r.Client, Call: r.Call, Return: r.Ret}
		if r.Op.Kind == "write" {
			o.Input, o.Output = regIn{write: true, id: r.Op.ID}, uint64(0)
		} else {
			o.Input, o.Output = regIn{}, r.Val
		}
		byAddr[r.Op.Addr] = append(byAddr[r.Op.Addr], o)
	}
	addrs := make([]uint64, 0, len(byAddr))
	for a := range byAddr {
		addrs = append(addrs, a)
	}
	sort.Slice(addrs, func(i, j int) bool { return addrs[i] < addrs[j] })
	for _, a := range addrs {
		switch porcupine.CheckOperationsTimeout(regModel, byAddr[a], 20*time.Second) {
		case porcupine.Illegal:
			return viol("disk.conc.nonlinearizable", fmt.Sprintf("history of address %d is not linearizable w.r.t. a register: %s", a, describeOps(byAddr[a])))
		case porcupine.Unknown:
			return nil // inconclusive, never reported
		}
	}
	return nil
}

func describeOps(ops []porcupine.Operation) string {
	s := ""
	for _, o := range ops {
		s += fmt.Sprintf("[c%d %s @%d..%d] ", o.ClientId, regModel.DescribeOperation(o.Input, o.Output), o.Call, o.Return)
	}
	return s
}

// checkFileHistory: exactly what C10 states for the file-backed disk —
// distinct addresses never interfere; operations ordered in real time on one
// address are observed in that order. No atomicity is assumed between a read
// and a write that overlap (or between two overlapping writes): such a read may
// return any byte-wise mixture -- but only of writes that can still be visible.
// A write is no longer visible to a read once another write began after it
// returned and itself returned before the read began.
func checkFileHistory(size uint64, all []opRec) *harness.Violation {
	if v := checkRefusalAndSize(size, all, "filedisk.conc"); v != nil {
		return v
	}
	writesTo := map[uint64][]opRec{}
	idAddr := map[uint64]map[uint64]bool{} // content id -> addresses it was written to
	for _, r := range all {
		if r.Op.Kind == "write" && !r.Refused {
			writesTo[r.Op.Addr] = append(writesTo[r.Op.Addr], r)
			if idAddr[r.Op.ID] == nil {
				idAddr[r.Op.ID] = map[uint64]bool{}
			}
			idAddr[r.Op.ID][r.Op.Addr] = true
		}
	}
	for _, r := range all {
		if (r.Op.Kind != "read" && r.Op.Kind != "readto") || r.Refused {
			continue
		}
		ws := writesTo[r.Op.Addr]
		unconstrained := false
		// frontier: completed writes that no other completed write strictly follows
		var frontier []opRec
		for _, w := range ws {
			if w.Call < r.Ret && r.Call < w.Ret {
				unconstrained = true // the read overlaps a write
			}
			if w.Ret >= r.Call {
				continue
			}
			followed := false
			for _, w2 := range ws {
				if w2.Call > w.Ret && w2.Ret < r.Call {
					followed = true
				}
			}
			if !followed {
				frontier = append(frontier, w)
			}
		}
		for i, w := range frontier {
			for j, w2 := range frontier {
				if i < j && w.Call < w2.Ret && w2.Call < w.Ret {
					unconstrained = true // two frontier writes overlapped each other: a mixture may persist
				}
			}
		}
		// interference from another address is never allowed
		foreign := func(id uint64) bool {
			return id != 0 && !idAddr[id][r.Op.Addr]
		}
		if foreign(r.Val) || (!r.Uniform && foreign(r.Second)) {
			return viol("filedisk.conc.cross-address", fmt.Sprintf("client %d %s(addr %d) returned data %#x/%#x written to a different address", r.Client, r.Op.Kind, r.Op.Addr, r.Val, r.Second))
		}
		if unconstrained {
			// byte-wise: every byte comes from a write that can still be visible
			var visible [][]byte
			var visIDs []uint64
			initial := true
			for _, w := range ws {
				if w.Ret < r.Call {
					initial = false
				}
				if w.Call >= r.Ret {
					continue
				}
				superseded := false
				for _, w2 := range ws {
					if w2.Call > w.Ret && w2.Ret < r.Call {
						superseded = true
					}
				}
				if !superseded {
					visible = append(visible, model.MkBlock(w.Op.ID, model.BlockSize))
					visIDs = append(visIDs, w.Op.ID)
				}
			}
			if initial {
				visible = append(visible, make([]byte, model.BlockSize))
				visIDs = append(visIDs, 0)
			}
			for i, x := range r.Data {
				ok := false
				for _, v := range visible {
					if v[i] == x {
						ok = true
						break
					}
				}
				if !ok {
					return viol("filedisk.conc.stale-read", fmt.Sprintf("client %d %s(addr %d) at [%d,%d] returned a block (first word %#x) whose byte %d is %#x: no write that can still be visible there has that byte (visible: %#x); an older value was returned after a later write had completed", r.Client, r.Op.Kind, r.Op.Addr, r.Call, r.Ret, r.Val, i, x, visIDs))
				}
			}
			continue
		}
		if !r.Uniform {
			return viol("filedisk.conc.stale-read", fmt.Sprintf("client %d %s(addr %d) overlapping no write returned a mixed block %#x/%#x", r.Client, r.Op.Kind, r.Op.Addr, r.Val, r.Second))
		}
		allowed := map[uint64]bool{}
		for _, w := range frontier {
			allowed[w.Op.ID] = true
		}
		if len(frontier) == 0 {
			allowed[0] = true
		}
		if !allowed[r.Val] {
			return viol("filedisk.conc.stale-read", fmt.Sprintf("client %d %s(addr %d) at [%d,%d] returned %#x; writes ordered before it allow only %v", r.Client, r.Op.Kind, r.Op.Addr, r.Call, r.Ret, r.Val, keys(allowed)))
		}
	}
	return nil
}

func keys(m map[uint64]bool) []string {
	var out []string
	for k := range m {
		out = append(out, fmt.Sprintf("%#x", k))
	}
	sort.Strings(out)
	return out
}
