package main

import (
	"bytes"
	"encoding/json"
	"fmt"
	"os"
	"path/filepath"
	"sort"
	"strings"

	"github.com/goose-lang/goose/machine/filesys"

	"verif/harness"
	"verif/model"
	"verif/simrt"
	"verif/simunix"
)

// Filesystem workloads shared by C12 (sequential equivalence), C13
// (AtomicCreate) and C14 (linearizability).

type FsOp struct {
	K   string `json:"k"` // create append close open readat delete link ac list bulk
	D   string `json:"d,omitempty"`
	N   string `json:"n,omitempty"`
	D2  string `json:"d2,omitempty"`
	N2  string `json:"n2,omitempty"`
	H   int    `json:"h,omitempty"`   // handle id bound (create/open) or used (append/close/readat)
	ID  uint64 `json:"id,omitempty"`  // data chunk id (append, ac)
	Len int    `json:"len,omitempty"` // data length / bulk count
	Off uint64 `json:"off,omitempty"`
	Cnt uint64 `json:"cnt,omitempty"`
	Scr bool   `json:"scr,omitempty"` // aliasing probe: scribble on the passed / returned slice
	// Direct: in the "global" systems this one call goes to the filesystem
	// object instead of the package-level wrapper
	Direct bool `json:"direct,omitempty"`
}

func (o FsOp) String() string {
	switch o.K {
	case "create":
		return fmt.Sprintf("h%d=Create(%s,%s)", o.H, o.D, o.N)
	case "open":
		return fmt.Sprintf("h%d=Open(%s,%s)", o.H, o.D, o.N)
	case "append":
		return fmt.Sprintf("Append(h%d, chunk %#x x%d)", o.H, o.ID, o.Len)
	case "close":
		return fmt.Sprintf("Close(h%d)", o.H)
	case "readat":
		return fmt.Sprintf("ReadAt(h%d,%d,%d)", o.H, o.Off, o.Cnt)
	case "delete":
		return fmt.Sprintf("Delete(%s,%s)", o.D, o.N)
	case "link":
		return fmt.Sprintf("Link(%s,%s -> %s,%s)", o.D, o.N, o.D2, o.N2)
	case "ac":
		return fmt.Sprintf("AtomicCreate(%s,%s, chunk %#x x%d)", o.D, o.N, o.ID, o.Len)
	case "list":
		return fmt.Sprintf("List(%s)", o.D)
	case "bulk":
		return fmt.Sprintf("bulk %d x AtomicCreate(%s, f###)", o.Len, o.D)
	case "mkdir":
		return fmt.Sprintf("Mkdir(%s)", o.D)
	}
	return o.K
}

type FsPlan struct {
	Batch          string   `json:"batch"`
	System         string   `json:"system,omitempty"`
	Dirs           []string `json:"dirs"`
	Ops            []FsOp   `json:"ops,omitempty"`
	Setup          []FsOp   `json:"setup,omitempty"`
	Clients        [][]FsOp `json:"clients,omitempty"`
	Real           bool     `json:"real,omitempty"`
	DirentsPerCall int      `json:"dirents_per_call,omitempty"`
	HighFds        bool     `json:"high_fds,omitempty"`
	// StallDen > 0: one yield in StallDen stalls, i.e. the simulated clock (and
	// with it the time stamps the kernel puts on files and directories) moves
	// while a task stands between two statements
	StallDen int `json:"stall_den,omitempty"`
}

var c12Systems = []string{"mem", "dir", "mem/global", "dir/global"}

// fsAPI routes calls to the instance or to the package-level wrappers.
type fsAPI struct {
	fs     filesys.Filesys
	global bool
	direct bool
}

func (a fsAPI) Create(d, n string) (filesys.File, bool) {
	if a.global && !a.direct {
		return filesys.Create(d, n)
	}
	return a.fs.Create(d, n)
}
func (a fsAPI) Append(f filesys.File, data []byte) {
	if a.global && !a.direct {
		filesys.Append(f, data)
		return
	}
	a.fs.Append(f, data)
}
func (a fsAPI) Close(f filesys.File) {
	if a.global && !a.direct {
		filesys.Close(f)
		return
	}
	a.fs.Close(f)
}
func (a fsAPI) Open(d, n string) filesys.File {
	if a.global && !a.direct {
		return filesys.Open(d, n)
	}
	return a.fs.Open(d, n)
}
func (a fsAPI) ReadAt(f filesys.File, off, n uint64) []byte {
	if a.global && !a.direct {
		return filesys.ReadAt(f, off, n)
	}
	return a.fs.ReadAt(f, off, n)
}
func (a fsAPI) Delete(d, n string) {
	if a.global && !a.direct {
		filesys.Delete(d, n)
		return
	}
	a.fs.Delete(d, n)
}
func (a fsAPI) AtomicCreate(d, n string, data []byte) {
	if a.global && !a.direct {
		filesys.AtomicCreate(d, n, data)
		return
	}
	a.fs.AtomicCreate(d, n, data)
}
func (a fsAPI) Link(od, on, nd, nn string) bool {
	if a.global && !a.direct {
		return filesys.Link(od, on, nd, nn)
	}
	return a.fs.Link(od, on, nd, nn)
}
func (a fsAPI) List(d string) []string {
	if a.global && !a.direct {
		return filesys.List(d)
	}
	return a.fs.List(d)
}

// fsEnv is one filesystem instance under test with its kernel.
type fsEnv struct {
	system string
	k      *simunix.Kernel
	root   string
	tmpdir string
}

func newFsEnv(system string, real bool, kcfg simunix.Config) (*fsEnv, error) {
	e := &fsEnv{system: system, root: "/"}
	e.k = simunix.NewKernel(kcfg)
	if real && strings.HasPrefix(system, "dir") {
		e.k.Real = true
		d, err := os.MkdirTemp(".", "verif-fs-")
		if err != nil {
			return nil, err
		}
		d, _ = filepath.Abs(d)
		e.tmpdir = d
		e.root = d
	}
	return e, nil
}

func (e *fsEnv) cleanup() {
	if e.tmpdir != "" {
		os.RemoveAll(e.tmpdir)
	}
}

// open builds the Filesys instance; must run inside a task.
func (e *fsEnv) open() (api fsAPI, closeFs func()) {
	global := strings.HasSuffix(e.system, "/global")
	var fs filesys.Filesys
	closeFs = func() {}
	if strings.HasPrefix(e.system, "mem") {
		fs = filesys.NewMemFs()
	} else {
		d := filesys.NewDirFs(e.root)
		fs = d
		closeFs = d.CloseFs
	}
	if global {
		filesys.Fs = fs
	}
	return fsAPI{fs: fs, global: global}, closeFs
}

type fsSeqResult struct {
	violation *harness.Violation
	events    int64
	probes    map[string]int
	log       []string
	nontriv   bool
}

// fsChecker compares one implementation with the model operation by operation.
type fsChecker struct {
	api    fsAPI
	m      *model.FS
	files  map[int]filesys.File // handle -> descriptor returned by the implementation
	open   map[filesys.File]int // descriptors currently open -> handle
	system string
	viol   *harness.Violation
	probes map[string]int
	prefix string
}

func (c *fsChecker) fail(oracle, key, msg string) {
	if c.viol == nil {
		if key == "" {
			key = oracle
		}
		c.viol = &harness.Violation{Oracle: oracle, Key: key, Msg: fmt.Sprintf("[%s] %s", c.system, msg)}
	}
}

func sameBytes(a, b []byte) bool { return len(a) == len(b) && bytes.Equal(a, b) }

// step executes one valid operation on the implementation and the model.
// It returns false when a violation was recorded.
func (c *fsChecker) step(i int, op FsOp) bool {
	p := c.prefix
	c.api.direct = op.Direct
	switch op.K {
	case "create":
		var f filesys.File
		var ok bool
		pan, msg := attempt(func() { f, ok = c.api.Create(op.D, op.N) })
		if pan {
			c.fail(p+".refusal", p+".refusal/create", fmt.Sprintf("op %d %v panicked: %s", i, op, msg))
			return false
		}
		want := c.m.Create(op.H, op.D, op.N)
		if ok != want {
			c.fail(p+".value", p+".value/create", fmt.Sprintf("op %d %v returned ok=%v, model says %v", i, op, ok, want))
			return false
		}
		if ok {
			if h2, dup := c.open[f]; dup {
				c.fail(p+".fd-not-fresh", p+".fd-not-fresh/create", fmt.Sprintf("op %d %v returned descriptor %d which is still open as h%d", i, op, f, h2))
				return false
			}
			c.files[op.H] = f
			c.open[f] = op.H
		}
	case "open":
		var f filesys.File
		pan, msg := attempt(func() { f = c.api.Open(op.D, op.N) })
		if pan {
			c.fail(p+".refusal", p+".refusal/open", fmt.Sprintf("op %d %v panicked: %s", i, op, msg))
			return false
		}
		c.m.Open(op.H, op.D, op.N)
		if h2, dup := c.open[f]; dup {
			key := p + ".fd-not-fresh/open"
			c.fail(p+".fd-not-fresh", key, fmt.Sprintf("op %d %v returned descriptor %d which is still open as h%d: every Open must yield an independent descriptor", i, op, f, h2))
			return false
		}
		c.files[op.H] = f
		c.open[f] = op.H
	case "append":
		data := model.Chunk(op.ID, op.Len)
		pan, msg := attempt(func() { c.api.Append(c.files[op.H], data) })
		if pan {
			c.fail(p+".refusal", p+".refusal/append", fmt.Sprintf("op %d %v (descriptor %d) panicked: %s", i, op, c.files[op.H], msg))
			return false
		}
		c.m.Append(op.H, model.Chunk(op.ID, op.Len))
		if op.Scr {
			for j := range data {
				data[j] ^= 0x77
			}
			c.probes["scribble_after_append"]++
		}
	case "close":
		pan, msg := attempt(func() { c.api.Close(c.files[op.H]) })
		if pan {
			c.fail(p+".refusal", p+".refusal/close", fmt.Sprintf("op %d %v (descriptor %d) panicked: %s", i, op, c.files[op.H], msg))
			return false
		}
		c.m.Close(op.H)
		delete(c.open, c.files[op.H])
	case "readat":
		var got []byte
		pan, msg := attempt(func() { got = c.api.ReadAt(c.files[op.H], op.Off, op.Cnt) })
		if pan {
			c.fail(p+".refusal", p+".refusal/readat", fmt.Sprintf("op %d %v (descriptor %d) panicked: %s", i, op, c.files[op.H], msg))
			return false
		}
		want, _ := c.m.ReadAt(op.H, op.Off, op.Cnt)
		if !sameBytes(got, want) {
			c.fail(p+".value", p+".value/readat", fmt.Sprintf("op %d %v returned %s, model says %s", i, op, model.DescribeBytes(got), model.DescribeBytes(want)))
			return false
		}
		if len(got) > 0 {
			c.probes["readat_nonempty"]++
		}
		if op.Scr {
			for j := range got {
				got[j] ^= 0x55
			}
			c.probes["scribble_after_readat"]++
		}
	case "delete":
		pan, msg := attempt(func() { c.api.Delete(op.D, op.N) })
		if pan {
			c.fail(p+".refusal", p+".refusal/delete", fmt.Sprintf("op %d %v panicked: %s", i, op, msg))
			return false
		}
		c.m.Delete(op.D, op.N)
	case "link":
		var ok bool
		pan, msg := attempt(func() { ok = c.api.Link(op.D, op.N, op.D2, op.N2) })
		if pan {
			c.fail(p+".refusal", p+".refusal/link", fmt.Sprintf("op %d %v panicked: %s", i, op, msg))
			return false
		}
		want, _ := c.m.Link(op.D, op.N, op.D2, op.N2)
		if ok != want {
			c.fail(p+".value", p+".value/link", fmt.Sprintf("op %d %v returned %v, model says %v", i, op, ok, want))
			return false
		}
	case "ac":
		data := model.Chunk(op.ID, op.Len)
		pan, msg := attempt(func() { c.api.AtomicCreate(op.D, op.N, data) })
		if pan {
			c.fail(p+".refusal", p+".refusal/ac", fmt.Sprintf("op %d %v panicked: %s", i, op, msg))
			return false
		}
		c.m.AtomicCreate(op.D, op.N, model.Chunk(op.ID, op.Len))
		if op.Scr {
			for j := range data {
				data[j] ^= 0x33
			}
			c.probes["scribble_after_atomiccreate"]++
		}
	case "bulk":
		for j := 0; j < op.Len; j++ {
			name := fmt.Sprintf("f%03d", j)
			pan, msg := attempt(func() { c.api.AtomicCreate(op.D, name, nil) })
			if pan {
				c.fail(p+".refusal", p+".refusal/ac", fmt.Sprintf("op %d %v: %s panicked: %s", i, op, name, msg))
				return false
			}
			c.m.AtomicCreate(op.D, name, nil)
		}
	case "list":
		var got []string
		pan, msg := attempt(func() { got = c.api.List(op.D) })
		if pan {
			c.fail(p+".refusal", p+".refusal/list", fmt.Sprintf("op %d %v panicked: %s", i, op, msg))
			return false
		}
		g := append([]string(nil), got...)
		sort.Strings(g)
		for i := range got {
			got[i] = "#overwritten-by-caller" // the result belongs to the caller
		}
		want := c.m.List(op.D)
		if strings.Join(g, "\x00") != strings.Join(want, "\x00") {
			c.fail(p+".list", "", fmt.Sprintf("op %d %v returned %d names %v, model says %d names %v", i, op, len(g), clip(g), len(want), clip(want)))
			return false
		}
		if len(want) > 100 {
			c.probes["list_over_100_names"]++
		}
	}
	return true
}

func clip(s []string) []string {
	if len(s) > 12 {
		return append(append([]string{}, s[:12]...), "...")
	}
	return s
}

// verifyAll re-reads every name through a fresh descriptor and compares with
// the model (final cross-check; also catches retained aliased slices).
func (c *fsChecker) verifyAll(dirs []string) {
	for _, d := range dirs {
		for _, n := range c.m.List(d) {
			want, _ := c.m.Content(d, n)
			var got []byte
			var f filesys.File
			pan, msg := attempt(func() {
				f = c.api.Open(d, n)
				got = c.api.ReadAt(f, 0, uint64(len(want))+10)
				c.api.Close(f)
			})
			if pan {
				if _, dup := c.open[f]; dup {
					// known consequence of a shared descriptor; reported by fd-not-fresh
					continue
				}
				c.fail(c.prefix+".refusal", c.prefix+".refusal/final-read", fmt.Sprintf("final read of %s/%s panicked: %s", d, n, msg))
				return
			}
			if !sameBytes(got, want) {
				c.fail(c.prefix+".value", c.prefix+".value/final-read", fmt.Sprintf("final content of %s/%s is %s, model says %s", d, n, model.DescribeBytes(got), model.DescribeBytes(want)))
				return
			}
		}
	}
}

func runFsSeq(p *FsPlan, system string, keepLog bool) fsSeqResult {
	res := fsSeqResult{probes: map[string]int{}}
	env, err := newFsEnv(system, p.Real, simunix.Config{DirentsPerCall: p.DirentsPerCall, HighFds: p.HighFds})
	if err != nil {
		res.log = append(res.log, "INFRA "+err.Error())
		return res
	}
	defer env.cleanup()
	s := simrt.New(simrt.Config{DaemonsOK: true, Tape: simrt.Replay(nil, nil), KeepLog: keepLog, MaxSteps: 5000000})
	simunix.Attach(s, env.k)
	chk := &fsChecker{m: model.NewFS(), files: map[int]filesys.File{}, open: map[filesys.File]int{}, system: system, probes: res.probes, prefix: "fs.seq"}
	r := s.Run(func() {
		api, closeFs := env.open()
		chk.api = api
		for _, d := range p.Dirs {
			pan, msg := attempt(func() { api.fs.Mkdir(d) })
			if pan {
				chk.fail("fs.seq.refusal", "fs.seq.refusal/mkdir", "Mkdir("+d+") panicked: "+msg)
				return
			}
			chk.m.Mkdir(d)
		}
		for i, op := range p.Ops {
			if !chk.step(i, op) {
				return
			}
		}
		chk.verifyAll(p.Dirs)
		if env.k.Real {
			// on the real kernel descriptors the plan left open are real ones:
			// over hundreds of thousands of plans they would exhaust the process
			for f := range chk.open {
				f := f
				attempt(func() { api.Close(f) })
			}
		}
		attempt(closeFs)
	})
	res.events = r.Events
	res.violation = chk.viol
	if keepLog {
		res.log = append(res.log, r.Log...)
	}
	if r.Outcome == simrt.Deadlock && res.violation == nil {
		res.violation = &harness.Violation{Oracle: "fs.seq.deadlock", Key: "fs.seq.deadlock", Msg: fmt.Sprintf("[%s] an API call never returns: %s", system, r.Detail)}
	} else if r.Outcome != simrt.Completed && res.violation == nil {
		res.log = append(res.log, "outcome: "+r.Outcome.String()+" "+r.Detail)
	}
	for k, v := range s.Probes {
		res.probes[k] += v
	}
	return res
}

// ---- generator of valid sequential histories ------------------------------------

var namePool = []string{"a", "b", "a.tmp", "c"}
var oddNames = []string{"log..old", "...", "a b", "-x", "a", ".hidden", "x~"}
var sizePool = []int{0, 1, 10, 100, 4095, 4096, 4097, 10000, 70000}

func genFsSeq(rng *simrt.Rand, maxOps int, acBias bool) (dirs []string, ops []FsOp) {
	nd := 1 + rng.Intn(3)
	// directory names: usually unrelated, sometimes one a prefix of another (a
	// flattened "dir/name" key must not confuse db with db2 or db.old)
	scheme := [][]string{{"d0", "d1", "d2"}, {"d0", "d1", "d2"}, {"d", "d1", "d12"}, {"db", "db.old", "db2"}}[rng.Intn(4)]
	if scheme[0] != "d0" && nd == 1 {
		nd = 2
	}
	dirs = append(dirs, scheme[:nd]...)
	m := model.NewFS()
	for _, d := range dirs {
		m.Mkdir(d)
	}
	nextH := 1
	chunk := uint64(0x10)
	var appendH, readH []int
	var chunks [][2]uint64 // (id, length) of every chunk written so far
	pick := func(xs []int) (int, bool) {
		if len(xs) == 0 {
			return 0, false
		}
		return xs[rng.Intn(len(xs))], true
	}
	remove := func(xs []int, h int) []int {
		out := xs[:0:0]
		for _, x := range xs {
			if x != h {
				out = append(out, x)
			}
		}
		return out
	}
	existing := func() [][2]string {
		var out [][2]string
		for _, d := range dirs {
			for _, n := range m.List(d) {
				out = append(out, [2]string{d, n})
			}
		}
		return out
	}
	huge := false
	size := func() int {
		if !huge && rng.Chance(1, 60) {
			huge = true // one chunk of more than a mebibyte per history at most
			return 1200000
		}
		if rng.Chance(3, 4) {
			return sizePool[rng.Intn(5)]
		}
		return sizePool[rng.Intn(len(sizePool))]
	}
	n := 1 + rng.Intn(maxOps)
	bulked := false
	names := namePool
	if rng.Chance(1, 5) {
		names = oddNames // unusual but legal simple names
	}
	for len(ops) < n {
		d := dirs[rng.Intn(len(dirs))]
		name := names[rng.Intn(len(names))]
		ex := existing()
		var op FsOp
		sel := rng.Intn(16)
		if acBias {
			// AtomicCreate-centred histories (C13): creates, deletes and links
			// around frequent AtomicCreates, few reads
			sel = []int{13, 13, 13, 14, 14, 11, 11, 0, 2, 5, 12, 6, 8, 13, 11, 0}[sel]
		}
		switch sel {
		case 0, 1:
			op = FsOp{K: "create", D: d, N: name, H: nextH}
			if m.Create(nextH, d, name) {
				appendH = append(appendH, nextH)
			}
			nextH++
		case 2, 3, 4:
			h, ok := pick(appendH)
			if !ok {
				continue
			}
			chunk++
			op = FsOp{K: "append", H: h, ID: chunk, Len: size(), Scr: rng.Chance(1, 3)}
			chunks = append(chunks, [2]uint64{chunk, uint64(op.Len)})
			m.Append(h, model.Chunk(chunk, op.Len))
		case 5:
			all := append(append([]int{}, appendH...), readH...)
			h, ok := pick(all)
			if !ok {
				continue
			}
			op = FsOp{K: "close", H: h}
			m.Close(h)
			appendH = remove(appendH, h)
			readH = remove(readH, h)
		case 6, 7:
			if len(ex) == 0 {
				continue
			}
			e := ex[rng.Intn(len(ex))]
			op = FsOp{K: "open", D: e[0], N: e[1], H: nextH}
			m.Open(nextH, e[0], e[1])
			readH = append(readH, nextH)
			nextH++
		case 8, 9, 10:
			h, ok := pick(readH)
			if !ok {
				continue
			}
			cur, _ := m.ReadAt(h, 0, 1<<40)
			l := uint64(len(cur))
			off := []uint64{0, 0, l / 2, l, l + 1, l + 100, 1}[rng.Intn(7)]
			if l > 0 && rng.Chance(1, 4) {
				off = l - 1
			}
			cnt := []uint64{0, 1, l, l + 1, l / 2, 4096, 100000, 1 << 21}[rng.Intn(8)]
			op = FsOp{K: "readat", H: h, Off: off, Cnt: cnt, Scr: rng.Chance(1, 3)}
		case 11:
			if len(ex) == 0 {
				continue
			}
			e := ex[rng.Intn(len(ex))]
			op = FsOp{K: "delete", D: e[0], N: e[1]}
			m.Delete(e[0], e[1])
		case 12:
			if len(ex) == 0 {
				continue
			}
			e := ex[rng.Intn(len(ex))]
			d2 := dirs[rng.Intn(len(dirs))]
			op = FsOp{K: "link", D: e[0], N: e[1], D2: d2, N2: name}
			m.Link(e[0], e[1], d2, name)
		case 13, 14:
			chunk++
			op = FsOp{K: "ac", D: d, N: name, ID: chunk, Len: size(), Scr: rng.Chance(1, 3)}
			if rng.Chance(1, 5) && len(ex) > 0 {
				// exactly the bytes the name already holds (often while a
				// descriptor of the old file is still open): still a new file
				e := ex[rng.Intn(len(ex))]
				cur, _ := m.Content(e[0], e[1])
				for _, c := range chunks {
					if c[1] == uint64(len(cur)) && bytes.Equal(model.Chunk(c[0], int(c[1])), cur) {
						op.D, op.N, op.ID, op.Len = e[0], e[1], c[0], int(c[1])
						chunk--
						break
					}
				}
			}
			chunks = append(chunks, [2]uint64{op.ID, uint64(op.Len)})
			m.AtomicCreate(op.D, op.N, model.Chunk(op.ID, op.Len))
		default:
			if !bulked && rng.Chance(1, 12) {
				bulked = true
				op = FsOp{K: "bulk", D: d, Len: 110 + rng.Intn(80)}
				for j := 0; j < op.Len; j++ {
					m.AtomicCreate(d, fmt.Sprintf("f%03d", j), nil)
				}
			} else {
				op = FsOp{K: "list", D: d}
			}
		}
		op.Direct = rng.Chance(1, 5)
		ops = append(ops, op)
	}
	return
}

// validSeq reports whether ops respect the documented preconditions (used by
// the shrinker to discard candidates that became invalid).
func validSeq(dirs []string, ops []FsOp) bool {
	m := model.NewFS()
	for _, d := range dirs {
		m.Mkdir(d)
	}
	for _, op := range ops {
		switch op.K {
		case "create":
			if !m.Dirs[op.D] {
				return false
			}
			if _, used := m.Handles[op.H]; used {
				return false
			}
			m.Create(op.H, op.D, op.N)
		case "append":
			if !m.Append(op.H, nil) {
				return false
			}
		case "close":
			if !m.Close(op.H) {
				return false
			}
		case "open":
			if !m.Dirs[op.D] || !m.Open(op.H, op.D, op.N) {
				return false
			}
		case "readat":
			if _, ok := m.ReadAt(op.H, 0, 0); !ok {
				return false
			}
		case "delete":
			if !m.Delete(op.D, op.N) {
				return false
			}
		case "link":
			if !m.Dirs[op.D] || !m.Dirs[op.D2] {
				return false
			}
			if _, valid := m.Link(op.D, op.N, op.D2, op.N2); !valid {
				return false
			}
		case "ac":
			if !m.Dirs[op.D] {
				return false
			}
			m.AtomicCreate(op.D, op.N, nil)
		case "bulk", "list":
			if !m.Dirs[op.D] {
				return false
			}
		}
	}
	return true
}

// ---- C12 ----------------------------------------------------------------------------

type c12 struct{}

func (c12) ID() string                               { return "C12" }
func (c12) Strategy(rng *simrt.Rand) simrt.Strategy  { return simrt.Strategy{Kind: "seq"} }
func (c12) Expand(json.RawMessage) []json.RawMessage { return nil }

func (c12) Gen(rng *simrt.Rand, tier string, run int) interface{} {
	p := FsPlan{Batch: "seq"}
	p.Dirs, p.Ops = genFsSeq(rng, 40, false)
	p.Real = run%10 == 9
	if rng.Chance(1, 2) {
		p.DirentsPerCall = 1 + rng.Intn(3)
	}
	p.HighFds = rng.Chance(1, 4)
	return p
}

func (c12) Shrink(pj json.RawMessage) []json.RawMessage {
	var p FsPlan
	json.Unmarshal(pj, &p)
	var out []json.RawMessage
	add := func(q FsPlan) {
		if !validSeq(q.Dirs, q.Ops) {
			return
		}
		b, _ := json.Marshal(q)
		out = append(out, b)
	}
	if len(p.Ops) > 3 {
		q := p
		q.Ops = append([]FsOp(nil), p.Ops[:len(p.Ops)/2]...)
		add(q)
	}
	for i := range p.Ops {
		q := p
		q.Ops = append(append([]FsOp(nil), p.Ops[:i]...), p.Ops[i+1:]...)
		add(q)
	}
	for i, op := range p.Ops {
		if op.Len > 1 && op.K != "bulk" {
			q := p
			q.Ops = append([]FsOp(nil), p.Ops...)
			q.Ops[i].Len = 1
			add(q)
		}
		if op.Scr {
			q := p
			q.Ops = append([]FsOp(nil), p.Ops...)
			q.Ops[i].Scr = false
			add(q)
		}
	}
	if p.System == "" {
		for _, s := range c12Systems[:2] {
			q := p
			q.System = s
			add(q)
		}
	}
	if p.DirentsPerCall != 0 || p.HighFds {
		q := p
		q.DirentsPerCall, q.HighFds = 0, false
		add(q)
	}
	return out
}

func (c12) Exec(pj json.RawMessage, tape *simrt.Tape, keepLog bool) harness.RunOut {
	var p FsPlan
	if err := json.Unmarshal(pj, &p); err != nil {
		return harness.RunOut{Infra: err.Error()}
	}
	out := harness.RunOut{Fingerprint: planHash(pj, ""), Probes: map[string]int{}, Faults: map[string]int{}}
	systems := c12Systems
	if p.System != "" {
		systems = []string{p.System}
	}
	run := func(sys string, real bool) bool {
		q := p
		q.Real = real
		r := runFsSeq(&q, sys, keepLog)
		out.Events += r.events
		for k, v := range r.probes {
			out.Probes[k] += v
		}
		if keepLog {
			out.Log = append(out.Log, "== system "+sys)
			out.Log = append(out.Log, r.log...)
		}
		for _, l := range r.log {
			if strings.HasPrefix(l, "INFRA") {
				out.Infra = l
			}
		}
		if r.violation != nil {
			out.Violation = r.violation
			if real {
				out.Violation.Msg = "[real kernel] " + out.Violation.Msg
			}
			return false
		}
		return true
	}
	for _, sys := range systems {
		if !run(sys, false) {
			return out
		}
	}
	if p.Real && p.System == "" {
		out.Probes["real_kernel_runs"]++
		if !run("dir", true) {
			return out
		}
		// stub validation: one random system-call script on the simulated and
		// on the real kernel; a disagreement is a bug of the stub (INFRA)
		out.Probes["stub_validation_scripts"]++
		if msg := validateKernel(planHash(pj, "kv")); msg != "" {
			out.Infra = msg
			return out
		}
	}
	out.NonTrivial = out.Probes["readat_nonempty"] > 0
	out.Sample = map[string]interface{}{"dirs": p.Dirs, "ops": opStrings(p.Ops), "systems": systems}
	return out
}

func opStrings(ops []FsOp) []string {
	var s []string
	for _, o := range ops {
		s = append(s, o.String())
	}
	return s
}
