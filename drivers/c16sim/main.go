//go:build verifoverlay

// c16sim is the second driver of C16: machine.WaitTimeout — and the primitive
// dependency it delegates to — compiled with sync -> simsync, time -> simtime,
// channels -> simchan, go -> simrt.Go and a yield before every statement, and
// run under the deterministic simrt scheduler. Unlike the synctest driver it
// decides every interleaving inside the implementation (between the caller, its
// helper goroutine, timers and signallers at statement granularity) and every
// tie from one tape, so every run replays exactly.
package main

import (
	"encoding/json"
	"fmt"
	"sort"
	"strconv"

	"github.com/goose-lang/goose/machine"

	"verif/harness"
	"verif/simrt"
	"verif/simsync"
)

type Event struct {
	AtUs int64  `json:"at_us"` // simulated microseconds since the start
	Kind string `json:"kind"`  // signal, broadcast, waiter, wt (a second WaitTimeout caller)
	// TimeoutMs: for kind "wt"
	TimeoutMs uint64 `json:"timeout_ms,omitempty"`
	// Cond: which of the two condition variables (each with its own mutex)
	Cond int `json:"cond,omitempty"`
	// HoldUs: a signaller that takes the lock, keeps it for this long and only
	// then signals (generated only seconds away from the call's timeout, so that
	// no expiry can fall into the time the lock is held)
	HoldUs int64 `json:"hold_us,omitempty"`
}

type Call struct {
	TimeoutMs uint64 `json:"timeout_ms"`
	GapUs     int64  `json:"gap_us"`
	Cond      int    `json:"cond,omitempty"`
}

type Plan struct {
	Calls  []Call  `json:"calls"`
	Events []Event `json:"events"`
	// U2S: when non-empty the plan is instead a set of concurrent callers of
	// machine.UInt64ToString, one list of arguments per task
	U2S [][]uint64 `json:"u2s,omitempty"`
	// StallDen > 0: one yield in StallDen stalls (the clock advances while the
	// task stands between two statements); time bounds allow for the stalls
	StallDen int `json:"stall_den,omitempty"`
	// SharedMutex: the two condition variables share ONE mutex (not-full /
	// not-empty style)
	SharedMutex bool `json:"shared_mutex,omitempty"`
}

type c16 struct{}

func (c16) ID() string                               { return "C16" }
func (c16) Expand(json.RawMessage) []json.RawMessage { return nil }

func (c16) Strategy(rng *simrt.Rand) simrt.Strategy {
	switch rng.Intn(6) {
	case 0, 1:
		return simrt.Strategy{Kind: "uniform"}
	case 2:
		return simrt.Strategy{Kind: "sticky", Den: 4}
	case 3:
		return simrt.Strategy{Kind: "sticky", Den: 16}
	case 4:
		return simrt.Strategy{Kind: "pct", Depth: 2, EstLen: 120}
	default:
		return simrt.Strategy{Kind: "pct", Depth: 4, EstLen: 120}
	}
}

func (c16) Gen(rng *simrt.Rand, tier string, run int) interface{} {
	var p Plan
	if run%8 == 5 {
		// concurrent callers of UInt64ToString on a few numbers that alias under
		// power-of-two (and decimal) reductions of the argument
		base := uint64(rng.Pick(0, 1, 5, 9, 10, 42, 255, 999))
		vals := []uint64{base}
		for len(vals) < 2+rng.Intn(2) {
			switch rng.Intn(4) {
			case 0, 1:
				vals = append(vals, base+uint64(1)<<uint(rng.Pick(4, 6, 8, 8, 10, 12, 16, 20, 32, 63)))
			case 2:
				vals = append(vals, base+uint64(rng.Pick(100, 1000, 1024, 4096, 65536)))
			default:
				vals = append(vals, base*10+uint64(rng.Intn(10)))
			}
		}
		for t := 0; t < 2+rng.Intn(2); t++ {
			var l []uint64
			for i := 0; i < 1+rng.Intn(3); i++ {
				l = append(l, vals[rng.Intn(len(vals))])
			}
			p.U2S = append(p.U2S, l)
		}
		return p
	}
	n := 1 + rng.Intn(2)
	at := int64(0)
	var starts, expiries []int64
	for i := 0; i < n; i++ {
		c := Call{TimeoutMs: []uint64{0, 0, 1, 2, 10, 100, 1 << 32}[rng.Intn(7)], GapUs: int64(rng.Pick(0, 1, 500))}
		if i == 0 {
			c.GapUs = int64(rng.Pick(0, 0, 1))
		}
		at += c.GapUs
		starts = append(starts, at)
		t := int64(c.TimeoutMs) * 1000
		if c.TimeoutMs > 1<<20 {
			t = 20000
		}
		at += t
		expiries = append(expiries, at)
		p.Calls = append(p.Calls, c)
	}
	ne := rng.Intn(4)
	for j := 0; j < ne; j++ {
		ci := rng.Intn(n)
		var t int64
		switch rng.Intn(6) {
		case 0, 1:
			t = starts[ci] // tie with the call's entry
		case 2, 3:
			t = expiries[ci] // tie with the timer
		case 4:
			t = (starts[ci] + expiries[ci]) / 2
		default:
			t = expiries[ci] + int64(rng.Pick(1, 300))
		}
		e := Event{AtUs: t, Kind: []string{"signal", "broadcast", "broadcast", "waiter", "wt"}[rng.Intn(5)]}
		if e.Kind == "wt" {
			e.TimeoutMs = []uint64{0, 1, 5, 50, 3000}[rng.Intn(5)]
		}
		p.Events = append(p.Events, e)
	}
	for ci, c := range p.Calls {
		if c.TimeoutMs == 1<<32 && len(p.Calls) == 1 && rng.Chance(1, 2) {
			// the lock is held across a whole second of a ten-second wait, then the
			// signal comes (the timeout itself is seconds away from the hold)
			p.Calls[ci].TimeoutMs = 10000
			k := int64(1 + rng.Intn(3))
			p.Events = []Event{{AtUs: starts[ci] + k*1_000_000 - int64(rng.Pick(1, 500, 999)), Kind: rng.PickStr("signal", "broadcast"), HoldUs: int64(rng.Pick(1000, 2000))}}
		}
	}
	sort.SliceStable(p.Events, func(i, j int) bool { return p.Events[i].AtUs < p.Events[j].AtUs })
	if rng.Chance(1, 4) {
		// two condition variables with their own mutexes: the calls and events
		// are spread over them (state an implementation shares between conds)
		for i := range p.Calls {
			p.Calls[i].Cond = rng.Intn(2)
		}
		for j := range p.Events {
			p.Events[j].Cond = rng.Intn(2)
		}
		p.SharedMutex = rng.Chance(1, 2)
	}
	if rng.Chance(1, 3) {
		p.StallDen = rng.Pick(8, 40, 200)
	}
	return p
}

func (c16) Shrink(pj json.RawMessage) []json.RawMessage {
	var p Plan
	json.Unmarshal(pj, &p)
	var out []json.RawMessage
	add := func(q Plan) {
		b, _ := json.Marshal(q)
		out = append(out, b)
	}
	if len(p.U2S) > 0 {
		for i := range p.U2S {
			if len(p.U2S) > 1 {
				q := p
				q.U2S = append(append([][]uint64{}, p.U2S[:i]...), p.U2S[i+1:]...)
				add(q)
			}
			for j := range p.U2S[i] {
				if len(p.U2S[i]) > 1 {
					q := p
					q.U2S = append([][]uint64{}, p.U2S...)
					q.U2S[i] = append(append([]uint64{}, p.U2S[i][:j]...), p.U2S[i][j+1:]...)
					add(q)
				}
			}
		}
		return out
	}
	for i := range p.Events {
		q := p
		q.Events = append(append([]Event{}, p.Events[:i]...), p.Events[i+1:]...)
		add(q)
	}
	if len(p.Calls) > 1 {
		q := p
		q.Calls = p.Calls[:len(p.Calls)-1]
		add(q)
		q2 := p
		q2.Calls = append([]Call{}, p.Calls[1:]...)
		add(q2)
	}
	for i, c := range p.Calls {
		for _, t := range []uint64{0, 1} {
			if t < c.TimeoutMs {
				q := p
				q.Calls = append([]Call{}, p.Calls...)
				q.Calls[i].TimeoutMs = t
				add(q)
			}
		}
	}
	return out
}

// execU2S: concurrent callers of machine.UInt64ToString; every result is
// compared with the canonical decimal rendering.
func execU2S(p *Plan, tape *simrt.Tape, keepLog bool) harness.RunOut {
	s := simrt.New(simrt.Config{Tape: tape, KeepLog: keepLog, MaxSteps: 200000})
	type bad struct {
		task int
		x    uint64
		got  string
	}
	var bads []bad
	res := s.Run(func() {
		var wg simsync.WaitGroup
		wg.Add(len(p.U2S))
		for t := range p.U2S {
			t := t
			simrt.GoNamed(fmt.Sprintf("caller%d", t), func() {
				defer wg.Done()
				for _, x := range p.U2S[t] {
					simrt.Yield(-60)
					got := machine.UInt64ToString(x)
					if got != strconv.FormatUint(x, 10) {
						bads = append(bads, bad{t, x, got})
					}
				}
			})
		}
		wg.Wait()
	})
	out := harness.RunOut{Fingerprint: res.Fingerprint, Events: res.Events, SimTime: res.SimTime, Probes: s.Probes, Faults: s.Faults,
		Sched: tape.Sched, Aux: tape.Aux, Log: res.Log}
	out.Probes["batch_u2s_conc"]++
	out.NonTrivial = res.Switches > 1
	out.Sample = map[string]interface{}{"plan": p, "events": res.Events, "switches": res.Switches}
	fail := func(oracle, msg string) {
		if out.Violation == nil {
			out.Violation = &harness.Violation{Oracle: oracle, Key: oracle + "/sim", Msg: msg}
		}
	}
	for _, t := range s.Tasks() {
		if t.PanicVal != nil {
			fail("u2s.conc.panic", fmt.Sprintf("task %s panicked: %v", t.Name, t.PanicVal))
			return out
		}
	}
	switch res.Outcome {
	case simrt.Deadlock:
		fail("u2s.conc.deadlock", "concurrent UInt64ToString callers never return: "+res.Detail)
	case simrt.StepCap:
		out.Inconclusive = "inconclusive-steps"
	}
	for _, b := range bads {
		fail("u2s.conc.value", fmt.Sprintf("UInt64ToString(%d) returned %q to caller %d while other callers were formatting %v", b.x, b.got, b.task, p.U2S))
	}
	return out
}

type stampedEv struct {
	kind    string
	call    int
	stamp   int64
	at      int64 // simulated ns
	cond    int
	stalled int64 // stall time injected so far
}

const epsNs = int64(1_000_000)

func (c16) Exec(pj json.RawMessage, tape *simrt.Tape, keepLog bool) harness.RunOut {
	var p Plan
	if err := json.Unmarshal(pj, &p); err != nil {
		return harness.RunOut{Infra: err.Error()}
	}
	if len(p.U2S) > 0 {
		return execU2S(&p, tape, keepLog)
	}
	s := simrt.New(simrt.Config{DaemonsOK: true, Tape: tape, KeepLog: keepLog, MaxSteps: 200000, StallDen: p.StallDen})
	var evs []stampedEv
	add := func(kind string, call, cond int) {
		// called while holding that cond's mutex: per cond, the stamp order is the lock order
		seq, now, stalled := simrt.StampClock(50)
		evs = append(evs, stampedEv{kind, call, seq, now, cond, stalled})
	}
	wtSeq := 0
	lockHeld := make([]bool, len(p.Calls))
	panics := make([]string, len(p.Calls))
	callsDone := 0
	res := s.Run(func() {
		var mus [2]simsync.Mutex
		muOf := [2]*simsync.Mutex{&mus[0], &mus[1]}
		if p.SharedMutex {
			muOf[1] = &mus[0]
		}
		conds := [2]*simsync.Cond{simsync.NewCond(muOf[0]), simsync.NewCond(muOf[1])}
		finished := false
		for _, e := range p.Events {
			e := e
			simrt.GoNamed("event-"+e.Kind, func() {
				simrt.Sleep(e.AtUs * 1000)
				mu, cond := muOf[e.Cond&1], conds[e.Cond&1]
				mu.Lock()
				if finished {
					mu.Unlock()
					return
				}
				if e.HoldUs > 0 {
					simrt.Sleep(e.HoldUs * 1000)
				}
				add(e.Kind, -1, e.Cond&1)
				switch e.Kind {
				case "signal":
					cond.Signal()
				case "broadcast":
					cond.Broadcast()
				case "waiter":
					cond.Wait()
				case "wt":
					// another goroutine inside WaitTimeout on the same cond; in the
					// reference model it is a waiter that leaves the queue when it returns
					my := wtSeq
					wtSeq++
					evs[len(evs)-1].call = -2 - my
					machine.WaitTimeout(cond, e.TimeoutMs)
					seq, now, stalled := simrt.StampClock(51)
					evs = append(evs, stampedEv{"wt-exit", -2 - my, seq, now, e.Cond & 1, stalled})
				}
				mu.Unlock()
			})
		}
		for i, c := range p.Calls {
			if c.GapUs > 0 {
				simrt.Sleep(c.GapUs * 1000)
			}
			mu, cond := muOf[c.Cond&1], conds[c.Cond&1]
			mu.Lock()
			add("entry", i, c.Cond&1)
			func() {
				defer func() {
					if r := recover(); r != nil {
						if simrt.IsAbort(r) {
							panic(r)
						}
						panics[i] = fmt.Sprint(r)
					}
				}()
				machine.WaitTimeout(cond, c.TimeoutMs)
			}()
			if mu.TryLock() {
				lockHeld[i] = false
			} else {
				lockHeld[i] = true
			}
			add("exit", i, c.Cond&1)
			callsDone++
			mu.Unlock()
			if panics[i] != "" {
				break
			}
		}
		mus[0].Lock()
		mus[1].Lock()
		finished = true
		mus[1].Unlock()
		mus[0].Unlock()
		// release whoever still waits (plain waiters, stale helpers)
		for k := 0; k < 6; k++ {
			for c := range conds {
				muOf[c].Lock()
				conds[c].Broadcast()
				muOf[c].Unlock()
			}
			simrt.Sleep(1000)
		}
	})
	out := harness.RunOut{Fingerprint: res.Fingerprint, Events: res.Events, SimTime: res.SimTime, Probes: s.Probes, Faults: s.Faults,
		Sched: tape.Sched, Aux: tape.Aux, Log: res.Log}
	out.Probes["batch_sim"]++
	out.NonTrivial = res.Switches > 3
	out.Sample = map[string]interface{}{"plan": p, "events": res.Events, "switches": res.Switches}
	if keepLog {
		for _, e := range evs {
			out.Log = append(out.Log, fmt.Sprintf("history: stamp %d %s call=%d at %dns", e.stamp, e.kind, e.call, e.at))
		}
	}
	fail := func(oracle, facts, msg string) {
		if out.Violation == nil {
			key := oracle + "/sim" + facts
			if facts == "/after-earlier-timeout" {
				key = oracle + facts // the recorded stale-waiter finding, whichever batch reaches it
			}
			out.Violation = &harness.Violation{Oracle: oracle, Key: key, Msg: msg}
		}
	}
	for _, t := range s.Tasks() {
		if t.PanicVal != nil {
			fail("wt.panic", "", fmt.Sprintf("task %s panicked: %v", t.Name, t.PanicVal))
			return out
		}
	}
	switch res.Outcome {
	case simrt.Deadlock:
		fail("wt.stuck", "", fmt.Sprintf("WaitTimeout never returns (after %d of %d calls): %s", callsDone, len(p.Calls), res.Detail))
		return out
	case simrt.StepCap:
		out.Inconclusive = "inconclusive-steps"
		return out
	}
	for i := range p.Calls {
		if panics[i] != "" {
			fail("wt.panic", "", fmt.Sprintf("call %d WaitTimeout(%d ms) panicked: %s", i, p.Calls[i].TimeoutMs, panics[i]))
			return out
		}
	}
	// ideal timed wait on a FIFO condition variable; events ordered by stamps;
	// the two condition variables are independent of each other
	sort.Slice(evs, func(i, j int) bool { return evs[i].stamp < evs[j].stamp })
	for c := 0; c < 2 && out.Violation == nil; c++ {
		judgeCond(&p, &out, evs, c, lockHeld, fail)
	}
	return out
}

// judgeCond replays the events of one condition variable against the ideal model.
func judgeCond(p *Plan, out *harness.RunOut, all []stampedEv, c int, lockHeld []bool, fail func(oracle, facts, msg string)) {
	var evs []stampedEv
	for _, e := range all {
		if e.cond == c {
			evs = append(evs, e)
		}
	}
	type qent struct{ call int }
	var queue []qent
	cur := -1
	var entryAt, wakeAt, entryStall, wakeStall int64
	woken := ""
	earlierTimeout := false
	for _, e := range evs {
		switch e.kind {
		case "entry":
			cur, entryAt, entryStall, woken = e.call, e.at, e.stalled, ""
			queue = append(queue, qent{e.call})
		case "signal":
			if len(queue) > 0 {
				if queue[0].call == cur && cur >= 0 && woken == "" {
					woken, wakeAt, wakeStall = "signal", e.at, e.stalled
				}
				queue = queue[1:]
			}
		case "broadcast":
			for _, q := range queue {
				if q.call == cur && cur >= 0 && woken == "" {
					woken, wakeAt, wakeStall = "broadcast", e.at, e.stalled
				}
			}
			queue = nil
		case "waiter":
			queue = append(queue, qent{-1})
		case "wt":
			queue = append(queue, qent{e.call})
		case "wt-exit":
			for qi, q := range queue {
				if q.call == e.call {
					// still queued when it returned: that call timed out
					queue = append(queue[:qi], queue[qi+1:]...)
					earlierTimeout = true
					break
				}
			}
		case "exit":
			i := e.call
			if !lockHeld[i] {
				fail("wt.lock-not-held", "", fmt.Sprintf("call %d WaitTimeout(%d ms) returned without holding the caller's lock (TryLock succeeded)", i, p.Calls[i].TimeoutMs))
				return
			}
			T := int64(p.Calls[i].TimeoutMs) * 1_000_000
			switch {
			// a stalled thread is late by no fault of the implementation: the
			// bound grows by the stall time injected while the call was waited for
			case woken != "" && e.at > wakeAt+epsNs+(e.stalled-wakeStall):
				facts := ""
				if earlierTimeout && woken == "signal" {
					facts = "/after-earlier-timeout"
				}
				fail("wt.late-"+woken, facts, fmt.Sprintf("call %d WaitTimeout(%d ms) entered at %dns; a %s took the lock after the call was entered at %dns, yet the call returned at %dns (stalls injected meanwhile: %dns); earlier timed-out call on this cond: %v", i, p.Calls[i].TimeoutMs, entryAt, woken, wakeAt, e.at, e.stalled-wakeStall, earlierTimeout))
				return
			case woken == "" && p.Calls[i].TimeoutMs < 1<<40 && e.at > entryAt+T+epsNs+(e.stalled-entryStall):
				fail("wt.late-timeout", "", fmt.Sprintf("call %d WaitTimeout(%d ms) entered at %dns returned at %dns (stalls injected meanwhile: %dns)", i, p.Calls[i].TimeoutMs, entryAt, e.at, e.stalled-entryStall))
				return
			}
			if woken == "" {
				earlierTimeout = true
				out.Probes["timed_out"]++
			} else {
				out.Probes["woken_by_"+woken]++
			}
			for qi, q := range queue {
				if q.call == i {
					queue = append(queue[:qi], queue[qi+1:]...)
					break
				}
			}
			cur = -1
		}
	}
}

func main() {
	harness.Main(map[string]harness.Check{"C16": c16{}})
}
