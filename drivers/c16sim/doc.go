// Package main (c16sim) only compiles against the overlay that substitutes sync
// and time in machine/prims.go; see main.go (build tag verifoverlay).
package main
