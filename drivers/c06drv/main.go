// c06drv is the driver for C06 (translation is deterministic; packages do not
// influence each other). The translator packages are compiled from /repo's
// working tree with sync, go/packages, time and math/rand substituted, go
// statements routed through the simulated scheduler, a yield at every function
// entry and map iteration order drawn from the tape.
package main

import (
	"bytes"
	"encoding/json"
	"fmt"
	"go/token"
	"os"
	"os/exec"
	"path/filepath"
	"regexp"
	"sort"
	"strings"
	"sync"
	"time"

	"github.com/goose-lang/goose"

	"verif/harness"
	"verif/simpackages"
	"verif/simrt"
	"verif/simruntime"
	"verif/simtime"
)

type TrPlan struct {
	// Binary: run the instrumented cmd/goose binary itself (whole-binary
	// simulation) instead of calling TranslatePackages through the API.
	Binary bool `json:"binary,omitempty"`
	// PriorOut (binary runs): the output directory already holds the files of
	// an earlier run, "longer" (the earlier output followed by more text) or
	// "same"; the result must not depend on it.
	PriorOut     string   `json:"prior_out,omitempty"`
	IgnoreErrors bool     `json:"ignore_errors,omitempty"`
	Module       string   `json:"module"` // repo | scratch
	Patterns     []string `json:"patterns"`
	// FileOrderSeed != 0: load the packages afresh with the files of each
	// package handed to the parser in a permuted order (simpackages.Permute).
	FileOrderSeed uint64 `json:"file_order_seed,omitempty"`
	TypeCheck     bool   `json:"typecheck,omitempty"`
	SrcComments   bool   `json:"source_comments,omitempty"`
	SkipIfaces    bool   `json:"skip_interfaces,omitempty"`
	// ExtraFlags (binary runs): boolean flags that this tree's cmd/goose lists
	// in its usage text and that the shipped command does not have. What they
	// print is unknown, so stderr is not compared for such plans; exit status,
	// files and (race flavour) the absence of race reports still are.
	ExtraFlags []string `json:"extra_flags,omitempty"`
	// Procs: what runtime.GOMAXPROCS(0) / NumCPU() report to the code under
	// test in this run (0: the default, 8)
	Procs int `json:"procs,omitempty"`
}

var (
	extraFlagsOnce sync.Once
	extraBoolFlags []string
	boolFlagLine   = regexp.MustCompile(`^  -([A-Za-z0-9][A-Za-z0-9_.-]*)(\t.*)?$`)
)

// discoverFlags asks the built command for its usage text: a boolean flag is
// listed on a line of its own.
func discoverFlags() []string {
	extraFlagsOnce.Do(func() {
		bin := os.Getenv("VERIF_C06_GOOSE")
		if bin == "" {
			return
		}
		outb, _ := exec.Command(bin, "-h").CombinedOutput()
		known := map[string]bool{"ignore-errors": true, "skip-interfaces": true, "source-comments": true, "typecheck": true, "h": true, "help": true}
		for _, l := range strings.Split(string(outb), "\n") {
			if m := boolFlagLine.FindStringSubmatch(l); m != nil && !known[m[1]] {
				extraBoolFlags = append(extraBoolFlags, m[1])
			}
		}
		sort.Strings(extraBoolFlags)
	})
	return extraBoolFlags
}

func (p TrPlan) config() goose.TranslationConfig {
	return goose.TranslationConfig{TypeCheck: p.TypeCheck, AddSourceFileComments: p.SrcComments, SkipInterfaces: p.SkipIfaces}
}

var repoPatterns = []string{
	"./internal/examples/unittest", "./internal/examples/unittest/generic", "./internal/examples/simpledb",
	"./internal/examples/wal", "./internal/examples/async", "./internal/examples/logging2",
	"./internal/examples/append_log", "./internal/examples/rfc1813", "./internal/examples/semantics",
	"./internal/examples/comments", "./internal/examples/trust_import", "./internal/examples/trust_import/trusted_example",
	"./testdata/badgoose",
}

var scratchPatterns []string

func repoDir() string {
	if r := os.Getenv("VERIF_REPO"); r != "" {
		return r
	}
	return "/repo"
}

var scratchDir string

// setupScratch builds a scratch module whose packages are the files of
// testdata/negative-tests (one package each: they fail to translate, so error
// lists are compared too) and copies of three small example packages.
func setupScratch() error {
	if scratchDir != "" {
		return nil
	}
	// one scratch module per check run, shared by all workers (goldens are
	// shared too, and outputs embed absolute source paths)
	base := os.Getenv("VERIF_C06_GOLDEN")
	if base == "" {
		base = "."
	}
	d, _ := filepath.Abs(filepath.Join(base, "scratch"))
	creator := os.Mkdir(d, 0755) == nil
	if !creator {
		for i := 0; i < 600; i++ {
			if _, err := os.Stat(filepath.Join(d, ".ready")); err == nil {
				break
			}
			time.Sleep(100 * time.Millisecond)
		}
		if _, err := os.Stat(filepath.Join(d, ".ready")); err != nil {
			return fmt.Errorf("scratch module was not prepared by the first worker")
		}
	}
	// only the creating worker writes; the others just derive the pattern list
	writeFile := func(path string, data []byte) error {
		if !creator {
			return nil
		}
		os.MkdirAll(filepath.Dir(path), 0755)
		return os.WriteFile(path, data, 0644)
	}
	repo := repoDir()
	mod := fmt.Sprintf("module vscratch\n\ngo 1.22\n\nrequire (\n\tgithub.com/goose-lang/goose v0.0.0\n\tgithub.com/tchajed/marshal v0.6.1\n)\n\nreplace github.com/goose-lang/goose => %s\n", repo)
	if err := writeFile(filepath.Join(d, "go.mod"), []byte(mod)); err != nil {
		return err
	}
	sum, _ := os.ReadFile(filepath.Join(repo, "go.sum"))
	writeFile(filepath.Join(d, "go.sum"), sum)
	neg, err := os.ReadDir(filepath.Join(repo, "testdata/negative-tests"))
	if err != nil {
		return err
	}
	for _, e := range neg {
		if e.IsDir() || !strings.HasSuffix(e.Name(), ".go") {
			continue
		}
		name := strings.TrimSuffix(e.Name(), ".go")
		src, err := os.ReadFile(filepath.Join(repo, "testdata/negative-tests", e.Name()))
		if err != nil {
			return err
		}
		writeFile(filepath.Join(d, "neg", name, e.Name()), src)
		scratchPatterns = append(scratchPatterns, "./neg/"+name)
	}
	for _, g := range []string{"append_log", "logging2", "comments"} {
		ents, err := os.ReadDir(filepath.Join(repo, "internal/examples", g))
		if err != nil {
			continue
		}
		for _, e := range ents {
			if strings.HasSuffix(e.Name(), ".go") && !strings.HasSuffix(e.Name(), "_test.go") {
				src, _ := os.ReadFile(filepath.Join(repo, "internal/examples", g, e.Name()))
				writeFile(filepath.Join(d, "good", g, e.Name()), src)
			}
		}
		scratchPatterns = append(scratchPatterns, "./good/"+g)
	}
	for name, files := range synthPackages {
		for fn, src := range files {
			writeFile(filepath.Join(d, "synth", name, fn), []byte(src))
		}
		scratchPatterns = append(scratchPatterns, "./synth/"+name)
	}
	sort.Strings(scratchPatterns)
	scratchDir = d
	if creator {
		os.WriteFile(filepath.Join(d, ".ready"), []byte("ok"), 0644)
	}
	simpackages.SetUniverse(d, scratchPatterns)
	simpackages.SetUniverse(repoDir(), repoPatterns)
	return nil
}

// synthPackages are hand-written translator inputs whose declarations refer to
// several not-yet-emitted declarations (across files too), so that the order
// in which dependencies are hoisted is exercised.
var synthPackages = map[string]map[string]string{
	// conversion errors in more than one file: the error list must follow the
	// sorted file order whatever order the loader parsed the files in
	"errs2": {
		"a_big.go": `package errs2

import "sync"

type holdsMutex struct {
	m sync.Mutex
}

func fineA(x uint64) uint64 { return x + 1 }

func usesGoto(x uint64) uint64 {
	if x > 3 {
		goto done
	}
	x = x + 1
done:
	return x
}
`,
		"b_small.go": `package errs2

func namedResult() (r uint64) {
	r = 3
	return
}
`,
		"c_fine.go": `package errs2

func fineC(x uint64) uint64 { return fineA(x) * 2 }

type twoConds struct {
	a chan uint64
}
`},
	// seven conversion errors each: together errsA and errsB exceed any
	// per-invocation limit of ten that a tree might introduce, alone they do not
	"errsA": {"errsA.go": `package errsA

func fine(x uint64) uint64 { return x + 1 }

func bad1(x uint64) uint64 {
	if x > 1 {
		goto done
	}
	x = x + 1
done:
	return x
}

func bad2(x uint64) uint64 {
	if x > 2 {
		goto done
	}
	x = x + 1
done:
	return x
}

func bad3(x uint64) uint64 {
	if x > 3 {
		goto done
	}
	x = x + 1
done:
	return x
}

func bad4(x uint64) uint64 {
	if x > 4 {
		goto done
	}
	x = x + 1
done:
	return x
}

func bad5(x uint64) uint64 {
	if x > 5 {
		goto done
	}
	x = x + 1
done:
	return x
}

func bad6(x uint64) uint64 {
	if x > 6 {
		goto done
	}
	x = x + 1
done:
	return x
}

func bad7(x uint64) uint64 {
	if x > 7 {
		goto done
	}
	x = x + 1
done:
	return x
}
`},
	// seven conversion errors each: together errsA and errsB exceed any
	// per-invocation limit of ten that a tree might introduce, alone they do not
	"errsB": {"errsB.go": `package errsB

func fine(x uint64) uint64 { return x + 1 }

func bad1(x uint64) uint64 {
	if x > 1 {
		goto done
	}
	x = x + 1
done:
	return x
}

func bad2(x uint64) uint64 {
	if x > 2 {
		goto done
	}
	x = x + 1
done:
	return x
}

func bad3(x uint64) uint64 {
	if x > 3 {
		goto done
	}
	x = x + 1
done:
	return x
}

func bad4(x uint64) uint64 {
	if x > 4 {
		goto done
	}
	x = x + 1
done:
	return x
}

func bad5(x uint64) uint64 {
	if x > 5 {
		goto done
	}
	x = x + 1
done:
	return x
}

func bad6(x uint64) uint64 {
	if x > 6 {
		goto done
	}
	x = x + 1
done:
	return x
}

func bad7(x uint64) uint64 {
	if x > 7 {
		goto done
	}
	x = x + 1
done:
	return x
}
`},
	// a package whose NAME (trusted_kv) differs from its directory (kvdir), and an
	// importer: how the import is rendered must not depend on whether the
	// imported package is translated in the same invocation
	"kvdir": {"kv.go": "package trusted_kv\n\nfunc Get(k uint64) uint64 {\n\treturn k + 1\n}\n"},
	"useskv": {"u.go": "package useskv\n\nimport \"vscratch/synth/kvdir\"\n\nfunc Twice(k uint64) uint64 {\n\treturn trusted_kv.Get(trusted_kv.Get(k))\n}\n"},
	// packages that do not type-check: load errors in three files with one
	// error each (their order in the message must not depend on anything), and
	// an importer of a package that does not compile (what it reports must not
	// depend on whether the dependency is translated in the same invocation)
	"tyerr": {
		"a.go": "package tyerr\n\nfunc FA() uint64 {\n\treturn undefinedA\n}\n",
		"b.go": "package tyerr\n\nfunc FB() uint64 {\n\treturn undefinedB\n}\n",
		"c.go": "package tyerr\n\nfunc FC() uint64 {\n\treturn undefinedC\n}\n"},
	"depbad": {"dep.go": "package depbad\n\nfunc Get() uint64 {\n\tvar x uint64 = \"no\"\n\treturn x\n}\n"},
	"usesdep": {"user.go": "package usesdep\n\nimport \"vscratch/synth/depbad\"\n\nfunc UseDep() uint64 {\n\treturn depbad.Get() + 1\n}\n"},
	// a struct used by its defining package and by an importing package that
	// are translated together (they share the type checker's objects)
	"item": {"item.go": `package item

type Item struct {
	Id    uint64
	Count uint64
}

func New(id uint64) *Item {
	return &Item{Id: id, Count: 1}
}

func (it *Item) Bump() {
	it.Count = it.Count + 1
}

func Total(a Item, b Item) uint64 {
	return a.Count + b.Count
}
`},
	"cart": {"cart.go": `package cart

import "vscratch/synth/item"

type Cart struct {
	first *item.Item
	n     uint64
}

func Add(c *Cart, id uint64) {
	it := item.New(id)
	it.Bump()
	c.first = it
	c.n = c.n + it.Count
}

func Peek(c *Cart) uint64 {
	return c.first.Id + c.first.Count
}

func Fresh() item.Item {
	return item.Item{Id: 7, Count: 0}
}
`},
	// an FFI reached only through another (non-FFI) package that several
	// co-translated packages share
	"ffistore": {"store.go": `package ffistore

import "github.com/goose-lang/goose/machine/disk"

func Put(a uint64, b disk.Block) {
	disk.Write(a, b)
}

func Get(a uint64) disk.Block {
	return disk.Read(a)
}
`},
	"ffiapp1": {"app.go": `package ffiapp1

import "vscratch/synth/ffistore"

func Copy(from uint64, to uint64) {
	ffistore.Put(to, ffistore.Get(from))
}
`},
	"ffiapp2": {"app.go": `package ffiapp2

import "vscratch/synth/ffistore"

func Clear(a uint64, zero []byte) {
	ffistore.Put(a, zero)
}
`},
	"fwd": {"fwd.go": `package fwd

func top(x uint64) uint64 {
	return alpha(x) + beta(x) + gamma(delta(x), epsilon())
}

type Outer struct {
	in  Inner
	mid Middle
	n   uint64
}

func (o *Outer) total() uint64 {
	return helperB(o.in.v) + helperA(o.mid.in.v) + LIMIT + o.n
}

func zeta(o Outer) uint64 {
	return helperA(o.n) + helperB(o.n) + alpha(o.n) + epsilon()
}

type Middle struct {
	in Inner
}

type Inner struct {
	v uint64
}

const LIMIT uint64 = 4096

func helperA(x uint64) uint64 { return x + 1 }
func helperB(x uint64) uint64 { return x * 2 }
func alpha(x uint64) uint64   { return helperB(x) + 1 }
func beta(x uint64) uint64    { return helperA(x) + 2 }
func gamma(x uint64, y uint64) uint64 {
	return x + y
}
func delta(x uint64) uint64 { return x }
func epsilon() uint64       { return LIMIT }
`},
	"multi": {
		"a_first.go": `package multi

func entry(x uint64) uint64 {
	return fromZ(x) + fromM(x) + fromB(x)
}

type Pair struct {
	l Left
	r Right
}
`,
		"b_second.go": `package multi

func fromB(x uint64) uint64 { return fromZ(x) + fromM(x) + SHIFT }

type Left struct {
	n uint64
}
`,
		"m_third.go": `package multi

func fromM(x uint64) uint64 { return x + SHIFT }

type Right struct {
	l Left
}
`,
		"z_last.go": `package multi

const SHIFT uint64 = 3

func fromZ(x uint64) uint64 { return x << SHIFT }

func usePair(p Pair) uint64 { return p.l.n + p.r.l.n + entry(p.l.n) }
`},
}

type trResult struct {
	pkgPath string
	text    string
	err     string
}

// translate runs TranslatePackages inside a simulation under the given tape.
func translate(p *TrPlan, tape *simrt.Tape, keepLog bool) (results []trResult, loaded []string, patternErr string, res simrt.Result, panics []string, probes map[string]int) {
	modDir := repoDir()
	if p.Module == "scratch" {
		modDir = scratchDir
	}
	s := simrt.New(simrt.Config{DaemonsOK: true, Tape: tape, KeepLog: keepLog, MaxSteps: 50_000_000})
	tr := p.config()
	if p.FileOrderSeed != 0 {
		simpackages.Permute = func(pkgPath string, files []string) []int {
			return simrt.NewRand(simrt.Mix(p.FileOrderSeed, simrt.HashString(pkgPath))).Perm(len(files))
		}
		defer func() { simpackages.Permute = nil }()
	}
	res = s.Run(func() {
		files, errs, perr := tr.TranslatePackages(modDir, p.Patterns...)
		loaded = append([]string(nil), simpackages.LastLoad...)
		if perr != nil {
			patternErr = perr.Error()
			return
		}
		for i, f := range files {
			var b bytes.Buffer
			f.Write(&b)
			r := trResult{pkgPath: f.PkgPath, text: b.String()}
			if i < len(errs) && errs[i] != nil {
				r.err = errs[i].Error()
			}
			results = append(results, r)
		}
		if len(errs) != len(files) {
			patternErr = fmt.Sprintf("len(files)=%d len(errs)=%d", len(files), len(errs))
		}
	})
	for _, t := range s.Tasks() {
		if t.PanicVal != nil {
			panics = append(panics, fmt.Sprintf("%s: %v", t.Name, t.PanicVal))
		}
	}
	return results, loaded, patternErr, res, panics, s.Probes
}

type goldenKey struct {
	module, pattern string
	flags           [3]bool
}

var golden = map[goldenKey]trResult{}

// goldenFor: the reference result for one package and flag combination is
// produced by a FRESH PROCESS (the instrumented cmd/goose on the sequential
// schedule, that package alone, -ignore-errors so that partial output is
// written too) and shared between workers through files. A golden computed in
// this process would inherit whatever package-level state earlier translations
// left behind and so could not expose it.
func goldenFor(p *TrPlan, pattern string) (trResult, string) {
	k := goldenKey{p.Module, pattern, [3]bool{p.TypeCheck, p.SrcComments, p.SkipIfaces}}
	if g, ok := golden[k]; ok {
		return g, ""
	}
	modDir := repoDir()
	if p.Module == "scratch" {
		modDir = scratchDir
	}
	// the package path, from the loader (no translation involved)
	// (same mode as goose's own loader configuration: the loads are memoised per directory)
	mode := simpackages.NeedName | simpackages.NeedCompiledGoFiles | simpackages.NeedImports | simpackages.NeedTypes | simpackages.NeedSyntax | simpackages.NeedTypesInfo
	pkgs, err := simpackages.Load(&simpackages.Config{Dir: modDir, Mode: mode, BuildFlags: []string{"-tags", "goose"}, Fset: token.NewFileSet()}, pattern)
	if err != nil || len(pkgs) != 1 {
		return trResult{}, fmt.Sprintf("golden: cannot load %s: %v", pattern, err)
	}
	g := trResult{pkgPath: pkgs[0].PkgPath}
	if os.Getenv("VERIF_C06_GOOSE") == "" {
		return trResult{}, "golden: VERIF_C06_GOOSE is not set"
	}
	cacheDir := os.Getenv("VERIF_C06_GOLDEN")
	if cacheDir == "" {
		cacheDir = "."
	}
	keyStr := fmt.Sprintf("%s|%s|%v", p.Module, pattern, k.flags)
	cacheFile := filepath.Join(cacheDir, fmt.Sprintf("golden-%016x.json", simrt.HashString(keyStr)))
	type cached struct {
		Key, Text, Err string
	}
	if b, err := os.ReadFile(cacheFile); err == nil {
		var c cached
		if json.Unmarshal(b, &c) == nil && c.Key == keyStr {
			g.text, g.err = c.Text, c.Err
			golden[k] = g
			return g, ""
		}
	}
	q := *p
	q.Patterns = []string{pattern}
	q.Binary, q.IgnoreErrors, q.PriorOut, q.FileOrderSeed = true, true, "", 0
	q.ExtraFlags = nil // the golden is the plain command: what other flags print is unknown
	q.Procs = 0
	r := runGooseBinary(&q, simrt.MainTape{}, nil)
	if r.infra != "" {
		return trResult{}, "golden (fresh process) of " + pattern + ": " + r.infra
	}
	if len(r.files) != 1 || (r.exit != 0 && r.exit != 1) {
		return trResult{}, fmt.Sprintf("golden (fresh process) of %s: exit %d, %d files, stderr %s", pattern, r.exit, len(r.files), clipStr(r.stderr))
	}
	for _, content := range r.files {
		g.text = content
	}
	g.err = strings.TrimSuffix(r.stderr, "\n")
	cb, _ := json.Marshal(cached{keyStr, g.text, g.err})
	tmp := fmt.Sprintf("%s.%d", cacheFile, os.Getpid())
	if os.WriteFile(tmp, cb, 0644) == nil {
		os.Rename(tmp, cacheFile)
	}
	golden[k] = g
	return g, ""
}

type c06 struct{}

func (c06) ID() string { return "C06" }

// lastPlanBinary: Gen tells Strategy (called right after it with the same
// generator) that the plan runs the whole command, whose interesting windows
// lie between synchronisation operations that are thousands of steps apart.
var lastPlanBinary bool

func (c06) Strategy(rng *simrt.Rand) simrt.Strategy {
	if lastPlanBinary && rng.Chance(1, 2) {
		return simrt.Strategy{Kind: "syncpct", Depth: rng.Pick(2, 3, 5), EstLen: rng.Pick(20, 50, 120)}
	}
	switch rng.Intn(12) {
	case 8, 9, 10:
		// pre-emption only at synchronisation operations: a few dozen per run
		return simrt.Strategy{Kind: "syncpct", Depth: rng.Pick(1, 2, 3, 5), EstLen: rng.Pick(20, 50, 120)}
	case 11:
		return simrt.Strategy{Kind: "rare", Depth: rng.Pick(1, 3, 8), Den: rng.Pick(2, 4, 64)}
	case 0:
		return simrt.Strategy{Kind: "uniform"}
	case 1:
		return simrt.Strategy{Kind: "sticky", Den: 8}
	case 2:
		return simrt.Strategy{Kind: "sticky", Den: 64}
	case 3:
		return simrt.Strategy{Kind: "sticky", Den: 512}
	case 4:
		return simrt.Strategy{Kind: "sticky", Den: 4096}
	case 5:
		return simrt.Strategy{Kind: "pct", Depth: 1, EstLen: 20000}
	case 6:
		return simrt.Strategy{Kind: "pct", Depth: 3, EstLen: 20000}
	default:
		return simrt.Strategy{Kind: "pct", Depth: 6, EstLen: 60000}
	}
}

func (c06) Expand(json.RawMessage) []json.RawMessage { return nil }

func (c06) Gen(rng *simrt.Rand, tier string, run int) interface{} {
	setupScratch()
	p := TrPlan{Module: "repo"}
	pool := repoPatterns
	if run%3 == 1 {
		p.Module = "scratch"
		pool = scratchPatterns
	}
	n := 1 + rng.Intn(5)
	if rng.Chance(1, 6) {
		n = 6 + rng.Intn(3)
	}
	if rng.Chance(1, 10) {
		n = 1
	}
	perm := rng.Perm(len(pool))
	for i := 0; i < n && i < len(pool); i++ {
		p.Patterns = append(p.Patterns, pool[perm[i]])
	}
	if p.Module == "scratch" && rng.Chance(1, 4) {
		// related packages translated together (shared types, shared imports)
		group := [][]string{{"./synth/item", "./synth/cart"}, {"./synth/cart", "./synth/item"}, {"./synth/ffiapp1", "./synth/ffiapp2"},
			{"./synth/ffistore", "./synth/ffiapp2", "./synth/ffiapp1"}, {"./synth/multi", "./synth/fwd", "./synth/errs2"},
			{"./synth/errsA", "./synth/errsB"}, {"./synth/errsB", "./synth/errs2", "./synth/errsA"},
			{"./synth/usesdep", "./synth/depbad"}, {"./synth/usesdep", "./synth/tyerr"}, {"./synth/tyerr"},
			{"./synth/useskv", "./synth/kvdir"}, {"./synth/useskv"}}[rng.Intn(12)]
		p.Patterns = append(append([]string{}, group...), p.Patterns[:rng.Intn(len(p.Patterns)+1)]...)
		seen := map[string]bool{}
		var uniq []string
		for _, x := range p.Patterns {
			if !seen[x] {
				seen[x] = true
				uniq = append(uniq, x)
			}
		}
		p.Patterns = uniq
	} else if p.Module == "repo" && rng.Chance(1, 6) {
		p.Patterns = append([]string{"./internal/examples/trust_import", "./internal/examples/trust_import/trusted_example"}, p.Patterns...)
		if len(p.Patterns) > 4 {
			p.Patterns = p.Patterns[:4]
		}
		seen := map[string]bool{}
		var uniq []string
		for _, x := range p.Patterns {
			if !seen[x] {
				seen[x] = true
				uniq = append(uniq, x)
			}
		}
		p.Patterns = uniq
	}
	if rng.Chance(1, 6) && len(p.Patterns) > 1 {
		// a repeated pattern
		p.Patterns = append(p.Patterns, p.Patterns[0])
	}
	p.TypeCheck = rng.Chance(1, 3)
	if rng.Chance(1, 2) {
		p.Procs = rng.Pick(1, 1, 2, 4, 16, 64)
	}
	p.SrcComments = rng.Chance(1, 3)
	p.SkipIfaces = rng.Chance(1, 4)
	if p.Module == "scratch" && run%12 == 1 {
		// fresh loads cost a `go list` each: small pattern sets, multi-file packages preferred
		p.FileOrderSeed = rng.Uint64() | 1
		if len(p.Patterns) > 2 {
			p.Patterns = p.Patterns[:2]
		}
		if rng.Chance(1, 2) {
			p.Patterns[0] = rng.PickStr("./synth/errs2", "./synth/multi", "./synth/errs2")
		}
	}
	// whole-binary plans: one in sixteen; one in four when this tree's command
	// has flags the shipped one does not (nothing else exercises them)
	lastPlanBinary = false
	binaryPlan := run%16 == 5
	if len(discoverFlags()) > 0 && run%4 == 1 {
		binaryPlan = true
	}
	if binaryPlan && os.Getenv("VERIF_C06_GOOSE") != "" {
		p.Binary = true
		lastPlanBinary = true
		p.IgnoreErrors = rng.Chance(1, 3)
		p.PriorOut = rng.PickStr("", "", "longer", "same")
		if len(p.Patterns) > 4 {
			p.Patterns = p.Patterns[:4]
		}
		for _, f := range discoverFlags() {
			if rng.Chance(1, 2) {
				p.ExtraFlags = append(p.ExtraFlags, f)
			}
		}
	}
	return p
}

func (c06) Shrink(pj json.RawMessage) []json.RawMessage {
	var p TrPlan
	json.Unmarshal(pj, &p)
	var out []json.RawMessage
	add := func(q TrPlan) {
		b, _ := json.Marshal(q)
		out = append(out, b)
	}
	for i := range p.Patterns {
		if len(p.Patterns) > 1 {
			q := p
			q.Patterns = append(append([]string{}, p.Patterns[:i]...), p.Patterns[i+1:]...)
			add(q)
		}
	}
	if p.TypeCheck || p.SrcComments || p.SkipIfaces {
		q := p
		q.TypeCheck, q.SrcComments, q.SkipIfaces = false, false, false
		add(q)
	}
	if p.FileOrderSeed != 0 {
		q := p
		q.FileOrderSeed = 0
		add(q)
	}
	return out
}

func firstDiff(a, b string) string {
	la, lb := strings.Split(a, "\n"), strings.Split(b, "\n")
	for i := 0; i < len(la) || i < len(lb); i++ {
		x, y := "<end>", "<end>"
		if i < len(la) {
			x = la[i]
		}
		if i < len(lb) {
			y = lb[i]
		}
		if x != y {
			return fmt.Sprintf("line %d: %q vs golden %q", i+1, clipStr(x), clipStr(y))
		}
	}
	return "identical"
}

func clipStr(s string) string {
	if len(s) > 160 {
		return s[:160] + "..."
	}
	return s
}

func (c06) Exec(pj json.RawMessage, tape *simrt.Tape, keepLog bool) harness.RunOut {
	var p TrPlan
	if err := json.Unmarshal(pj, &p); err != nil {
		return harness.RunOut{Infra: err.Error()}
	}
	if err := setupScratch(); err != nil {
		return harness.RunOut{Infra: "scratch module: " + err.Error()}
	}
	if p.Binary {
		return execBinary(&p, tape, keepLog)
	}
	// goldens first (sequential schedule, identity map order, each package alone)
	gold := map[string]trResult{}
	for _, pat := range p.Patterns {
		g, problem := goldenFor(&p, pat)
		if problem != "" {
			return harness.RunOut{Infra: problem}
		}
		gold[g.pkgPath] = g
	}
	simruntime.Procs = 8
	if p.Procs > 0 {
		simruntime.Procs = p.Procs
	}
	results, loaded, perr, res, panics, probes := translate(&p, tape, keepLog)
	simruntime.Procs = 8
	out := harness.RunOut{Fingerprint: res.Fingerprint, Events: res.Events, SimTime: res.SimTime, Probes: probes, Faults: map[string]int{},
		Sched: tape.Sched, Aux: tape.Aux}
	if keepLog {
		// the full event log of a translation is huge: keep the tail
		if len(res.Log) > 400 {
			out.Log = append([]string{fmt.Sprintf("... %d earlier events omitted", len(res.Log)-400)}, res.Log[len(res.Log)-400:]...)
		} else {
			out.Log = res.Log
		}
	}
	out.Sample = map[string]interface{}{"plan": p, "events": res.Events, "switches": res.Switches, "loaded": loaded}
	nPkgs := len(loaded)
	out.NonTrivial = nPkgs >= 2 && res.Switches > nPkgs+2
	if out.NonTrivial {
		out.Probes["workers_interleaved"]++
	}
	out.Probes["real_loader_invocations"] = simpackages.Loads
	if p.FileOrderSeed != 0 {
		out.Probes["fresh_loads_with_permuted_file_order"]++
	}
	fail := func(oracle, msg string) {
		if out.Violation == nil {
			out.Violation = &harness.Violation{Oracle: oracle, Key: oracle, Msg: msg}
		}
	}
	if len(panics) > 0 {
		fail("tr.panic", fmt.Sprintf("translating %v panicked: %s", p.Patterns, strings.Join(panics, "; ")))
		return out
	}
	switch res.Outcome {
	case simrt.Deadlock:
		fail("tr.deadlock", "TranslatePackages never returns: "+res.Detail)
		return out
	case simrt.StepCap:
		out.Inconclusive = "inconclusive-steps"
		return out
	}
	if perr != "" {
		fail("tr.errors", "TranslatePackages reported a pattern error for patterns that load alone: "+perr)
		return out
	}
	if len(results) != nPkgs {
		fail("tr.slot", fmt.Sprintf("%d packages were loaded %v but %d results came back", nPkgs, loaded, len(results)))
		return out
	}
	for i, r := range results {
		g, ok := gold[loaded[i]]
		if !ok {
			fail("tr.slot", fmt.Sprintf("no golden result for loaded package %s", loaded[i]))
			return out
		}
		// (a package that failed to LOAD comes back as an empty coq.File without
		// a path: its slot is identified by its error text alone, compared below)
		if r.pkgPath != loaded[i] && !(r.pkgPath == "" && (g.pkgPath == "" || r.err != "")) {
			fail("tr.slot", fmt.Sprintf("result slot %d holds package %q, the loader's package %d is %q (co-translated: %v)", i, r.pkgPath, i, loaded[i], loaded))
			return out
		}
		if r.err != g.err {
			fail("tr.errors", fmt.Sprintf("package %s co-translated with %v: error list differs from translating it alone: %s", loaded[i], loaded, firstDiff(r.err, g.err)))
			return out
		}
		if r.text != g.text {
			fail("tr.output", fmt.Sprintf("package %s co-translated with %v: output differs from translating it alone: %s", loaded[i], loaded, firstDiff(r.text, g.text)))
			return out
		}
		if g.err != "" {
			out.Probes["package_with_errors"]++
		}
	}
	return out
}

// ---- whole-binary batch: cmd/goose itself under the simulated scheduler -------------

type binResult struct {
	exit   int
	stderr string
	files  map[string]string
	tape   simrt.MainTape
	infra  string
	// races: ThreadSanitizer reports of the command (race flavour), cut out of stderr
	races []string
}

// splitRaceReports cuts the race detector's reports ("WARNING: DATA RACE" up
// to the closing line of equals signs) out of the command's stderr.
func splitRaceReports(stderr string) (rest string, reports []string) {
	if !strings.Contains(stderr, "WARNING: DATA RACE") {
		return stderr, nil
	}
	var keep, cur []string
	in := false
	lines := strings.Split(stderr, "\n")
	for i, l := range lines {
		switch {
		case !in && l == "==================" && i+1 < len(lines) && strings.HasPrefix(lines[i+1], "WARNING: DATA RACE"):
			in = true
			cur = []string{l}
		case in:
			cur = append(cur, l)
			if l == "==================" {
				reports = append(reports, strings.Join(cur, "\n"))
				in = false
			}
		default:
			if !strings.HasPrefix(l, "Found ") || !strings.Contains(l, "data race(s)") {
				keep = append(keep, l)
			}
		}
	}
	if in {
		reports = append(reports, strings.Join(cur, "\n"))
	}
	return strings.Join(keep, "\n"), reports
}

// raceInCodeUnderTest: a report counts only if it has a frame in the tree under
// test and does not involve the simulator's scheduler goroutine.
func raceInCodeUnderTest(report string) bool {
	return strings.Contains(report, repoDir()+"/") && !strings.Contains(report, "startScheduler")
}

var ansi = regexp.MustCompile("\x1b\\[[0-9;]*m")

func runGooseBinary(p *TrPlan, mt simrt.MainTape, prior map[string]string) binResult {
	var r binResult
	work, err := os.MkdirTemp(".", "bin-")
	if err != nil {
		r.infra = err.Error()
		return r
	}
	work, _ = filepath.Abs(work)
	defer os.RemoveAll(work)
	tapeFile := filepath.Join(work, "tape.json")
	outFile := filepath.Join(work, "tape-out.json")
	tb, _ := json.Marshal(mt)
	os.WriteFile(tapeFile, tb, 0644)
	modDir := repoDir()
	if p.Module == "scratch" {
		modDir = scratchDir
	}
	for rel, content := range prior {
		os.MkdirAll(filepath.Dir(filepath.Join(work, "out", rel)), 0755)
		os.WriteFile(filepath.Join(work, "out", rel), []byte(content), 0644)
	}
	args := []string{"-out", filepath.Join(work, "out"), "-dir", modDir}
	if p.TypeCheck {
		args = append(args, "-typecheck")
	}
	if p.SrcComments {
		args = append(args, "-source-comments")
	}
	if p.SkipIfaces {
		args = append(args, "-skip-interfaces")
	}
	if p.IgnoreErrors {
		args = append(args, "-ignore-errors")
	}
	for _, f := range p.ExtraFlags {
		args = append(args, "-"+f)
	}
	args = append(args, p.Patterns...)
	bin := os.Getenv("VERIF_C06_GOOSE")
	if rb := os.Getenv("VERIF_C06_GOOSE_RACE"); simrt.RaceEnabled && rb != "" {
		bin = rb
	}
	cmd := exec.Command(bin, args...)
	cmd.Env = append(os.Environ(), "VERIF_SIM_TAPE="+tapeFile, "VERIF_SIM_OUT="+outFile, "NO_COLOR=1", "GORACE=halt_on_error=0 exitcode=0")
	if p.Procs > 0 {
		cmd.Env = append(cmd.Env, fmt.Sprintf("VERIF_SIM_PROCS=%d", p.Procs))
	}
	var stderr bytes.Buffer
	cmd.Stderr = &stderr
	err = cmd.Run()
	if cmd.ProcessState == nil {
		r.infra = fmt.Sprint("cannot run the goose binary: ", err)
		return r
	}
	r.exit = cmd.ProcessState.ExitCode()
	r.stderr = ansi.ReplaceAllString(stderr.String(), "")
	r.stderr, r.races = splitRaceReports(r.stderr)
	r.files = map[string]string{}
	root := filepath.Join(work, "out")
	filepath.Walk(root, func(path string, info os.FileInfo, err error) error {
		if err == nil && !info.IsDir() {
			b, _ := os.ReadFile(path)
			rel, _ := filepath.Rel(root, path)
			r.files[rel] = string(b)
		}
		return nil
	})
	ob, err := os.ReadFile(outFile)
	if err != nil {
		r.infra = "the simulated binary left no tape: " + err.Error() + " stderr: " + clipStr(r.stderr)
		return r
	}
	json.Unmarshal(ob, &r.tape)
	if r.exit == 97 {
		r.infra = "simulated binary: " + r.stderr
	}
	return r
}

var binGolden = map[string]binResult{}

func execBinary(p *TrPlan, tape *simrt.Tape, keepLog bool) harness.RunOut {
	out := harness.RunOut{Probes: map[string]int{"binary_runs": 1}, Faults: map[string]int{}}
	pk := *p
	pk.PriorOut = ""
	pk.Procs = 0 // the golden run keeps the default GOMAXPROCS
	key, _ := json.Marshal(pk)
	g, ok := binGolden[string(key)]
	if !ok {
		g = runGooseBinary(&pk, simrt.MainTape{}, nil) // empty tape: the sequential schedule, empty output directory
		if g.infra != "" {
			out.Infra = "golden run: " + g.infra
			return out
		}
		binGolden[string(key)] = g
	}
	mt := simrt.MainTape{Sched: tape.Sched, Aux: tape.Aux, Strat: tape.Strat}
	if tape.Rng != nil {
		mt.Seed = tape.Rng.Uint64() | 1
	}
	var prior map[string]string
	if p.PriorOut != "" {
		prior = map[string]string{}
		for rel, content := range g.files {
			if p.PriorOut == "longer" {
				content += "\n(* stale tail of an earlier, longer output *)\nDefinition stale_leftover: val := #().\n"
			}
			prior[rel] = content
		}
		out.Probes["binary_prior_output_"+p.PriorOut]++
	}
	r := runGooseBinary(p, mt, prior)
	if r.infra != "" {
		out.Infra = r.infra
		return out
	}
	out.Sched, out.Aux = r.tape.Sched, r.tape.Aux
	out.Fingerprint = r.tape.Fingerprint
	out.Events = r.tape.Events
	out.NonTrivial = len(p.Patterns) >= 2 && r.tape.Switches > len(p.Patterns)+2
	out.Sample = map[string]interface{}{"plan": p, "exit": r.exit, "files": len(r.files), "events": r.tape.Events, "switches": r.tape.Switches}
	if keepLog {
		out.Log = append(out.Log, fmt.Sprintf("goose binary: exit=%d outcome=%s files=%d stderr=%q", r.exit, r.tape.Outcome, len(r.files), clipStr(r.stderr)))
	}
	fail := func(oracle, msg string) {
		if out.Violation == nil {
			out.Violation = &harness.Violation{Oracle: oracle, Key: oracle + "/binary", Msg: fmt.Sprintf("cmd/goose %v (module %s): %s", p.Patterns, p.Module, msg)}
		}
	}
	for _, rr := range append(append([]string{}, g.races...), r.races...) {
		if raceInCodeUnderTest(rr) {
			out.Probes["binary_race_reports"]++
			fail("tr.race", "the race detector reports a data race in the command: "+rr[:min(len(rr), 1800)])
			return out
		}
	}
	if len(r.tape.Panics) > 0 || r.exit == 2 {
		fail("tr.panic", fmt.Sprintf("the command crashed (exit %d): %v %s", r.exit, r.tape.Panics, clipStr(r.stderr)))
		return out
	}
	if r.exit != g.exit {
		fail("tr.errors", fmt.Sprintf("exit status %d under this schedule, %d under the sequential schedule", r.exit, g.exit))
		return out
	}
	if len(p.ExtraFlags) > 0 {
		out.Probes["binary_runs_with_discovered_flags"]++
	} else if r.stderr != g.stderr {
		fail("tr.errors", "stderr differs from the sequential schedule: "+firstDiff(r.stderr, g.stderr))
		return out
	}
	var names []string
	for n := range g.files {
		names = append(names, n)
	}
	for n := range r.files {
		if _, ok := g.files[n]; !ok {
			names = append(names, n)
		}
	}
	sort.Strings(names)
	for _, n := range names {
		a, oka := r.files[n]
		b, okb := g.files[n]
		if oka != okb {
			fail("tr.output", fmt.Sprintf("file %s written=%v under this schedule, written=%v under the sequential schedule", n, oka, okb))
			return out
		}
		if a != b {
			fail("tr.output", fmt.Sprintf("file %s differs from the sequential schedule: %s", n, firstDiff(a, b)))
			return out
		}
	}
	// against the library-level goldens: every package that translates alone
	// without error must have its file, byte-identical
	for _, pat := range p.Patterns {
		lg, problem := goldenFor(p, pat)
		if problem != "" {
			continue
		}
		if lg.err != "" && !p.IgnoreErrors {
			continue
		}
		found := false
		for _, content := range r.files {
			if content == lg.text {
				found = true
			}
		}
		if !found && lg.err == "" {
			fail("tr.output", fmt.Sprintf("package %s translates without error, but no written file holds its translation (files: %v, exit %d)", pat, keysOf(r.files), r.exit))
			return out
		}
	}
	return out
}

func keysOf(m map[string]string) []string {
	var k []string
	for n := range m {
		k = append(k, n)
	}
	sort.Strings(k)
	return k
}

func main() {
	simtime.Jitter = true
	os.Setenv("VERIF_TIME_JITTER", "1") // the instrumented cmd/goose child processes too
	harness.Main(map[string]harness.Check{"C06": c06{}})
}
