// c06drv is the driver for C06 (translation is deterministic; packages do not
// influence each other). The translator packages are compiled from /repo's
// working tree with sync, go/packages, time and math/rand substituted, go
// statements routed through the simulated scheduler, a yield at every function
// entry and map iteration order drawn from the tape.
package main

import (
	"bytes"
	"encoding/json"
	"fmt"
	"os"
	"path/filepath"
	"sort"
	"strings"

	"github.com/goose-lang/goose"

	"verif/harness"
	"verif/simpackages"
	"verif/simrt"
)

type TrPlan struct {
	Module      string   `json:"module"` // repo | scratch
	Patterns    []string `json:"patterns"`
	TypeCheck   bool     `json:"typecheck,omitempty"`
	SrcComments bool     `json:"source_comments,omitempty"`
	SkipIfaces  bool     `json:"skip_interfaces,omitempty"`
}

func (p TrPlan) config() goose.TranslationConfig {
	return goose.TranslationConfig{TypeCheck: p.TypeCheck, AddSourceFileComments: p.SrcComments, SkipInterfaces: p.SkipIfaces}
}

var repoPatterns = []string{
	"./internal/examples/unittest", "./internal/examples/unittest/generic", "./internal/examples/simpledb",
	"./internal/examples/wal", "./internal/examples/async", "./internal/examples/logging2",
	"./internal/examples/append_log", "./internal/examples/rfc1813", "./internal/examples/semantics",
	"./internal/examples/comments", "./internal/examples/trust_import", "./internal/examples/trust_import/trusted_example",
	"./testdata/badgoose",
}

var scratchPatterns []string

func repoDir() string {
	if r := os.Getenv("VERIF_REPO"); r != "" {
		return r
	}
	return "/repo"
}

var scratchDir string

// setupScratch builds a scratch module whose packages are the files of
// testdata/negative-tests (one package each: they fail to translate, so error
// lists are compared too) and copies of three small example packages.
func setupScratch() error {
	if scratchDir != "" {
		return nil
	}
	d, err := os.MkdirTemp(".", "scratch-")
	if err != nil {
		return err
	}
	d, _ = filepath.Abs(d)
	repo := repoDir()
	mod := fmt.Sprintf("module vscratch\n\ngo 1.22\n\nrequire (\n\tgithub.com/goose-lang/goose v0.0.0\n\tgithub.com/tchajed/marshal v0.6.1\n)\n\nreplace github.com/goose-lang/goose => %s\n", repo)
	if err := os.WriteFile(filepath.Join(d, "go.mod"), []byte(mod), 0644); err != nil {
		return err
	}
	sum, _ := os.ReadFile(filepath.Join(repo, "go.sum"))
	os.WriteFile(filepath.Join(d, "go.sum"), sum, 0644)
	neg, err := os.ReadDir(filepath.Join(repo, "testdata/negative-tests"))
	if err != nil {
		return err
	}
	for _, e := range neg {
		if e.IsDir() || !strings.HasSuffix(e.Name(), ".go") {
			continue
		}
		name := strings.TrimSuffix(e.Name(), ".go")
		src, err := os.ReadFile(filepath.Join(repo, "testdata/negative-tests", e.Name()))
		if err != nil {
			return err
		}
		os.MkdirAll(filepath.Join(d, "neg", name), 0755)
		os.WriteFile(filepath.Join(d, "neg", name, e.Name()), src, 0644)
		scratchPatterns = append(scratchPatterns, "./neg/"+name)
	}
	for _, g := range []string{"append_log", "logging2", "comments"} {
		ents, err := os.ReadDir(filepath.Join(repo, "internal/examples", g))
		if err != nil {
			continue
		}
		os.MkdirAll(filepath.Join(d, "good", g), 0755)
		for _, e := range ents {
			if strings.HasSuffix(e.Name(), ".go") && !strings.HasSuffix(e.Name(), "_test.go") {
				src, _ := os.ReadFile(filepath.Join(repo, "internal/examples", g, e.Name()))
				os.WriteFile(filepath.Join(d, "good", g, e.Name()), src, 0644)
			}
		}
		scratchPatterns = append(scratchPatterns, "./good/"+g)
	}
	sort.Strings(scratchPatterns)
	scratchDir = d
	return nil
}

type trResult struct {
	pkgPath string
	text    string
	err     string
}

// translate runs TranslatePackages inside a simulation under the given tape.
func translate(p *TrPlan, tape *simrt.Tape, keepLog bool) (results []trResult, loaded []string, patternErr string, res simrt.Result, panics []string, probes map[string]int) {
	modDir := repoDir()
	if p.Module == "scratch" {
		modDir = scratchDir
	}
	s := simrt.New(simrt.Config{Tape: tape, KeepLog: keepLog, MaxSteps: 50_000_000})
	tr := p.config()
	res = s.Run(func() {
		files, errs, perr := tr.TranslatePackages(modDir, p.Patterns...)
		loaded = append([]string(nil), simpackages.LastLoad...)
		if perr != nil {
			patternErr = perr.Error()
			return
		}
		for i, f := range files {
			var b bytes.Buffer
			f.Write(&b)
			r := trResult{pkgPath: f.PkgPath, text: b.String()}
			if i < len(errs) && errs[i] != nil {
				r.err = errs[i].Error()
			}
			results = append(results, r)
		}
		if len(errs) != len(files) {
			patternErr = fmt.Sprintf("len(files)=%d len(errs)=%d", len(files), len(errs))
		}
	})
	for _, t := range s.Tasks() {
		if t.PanicVal != nil {
			panics = append(panics, fmt.Sprintf("%s: %v", t.Name, t.PanicVal))
		}
	}
	return results, loaded, patternErr, res, panics, s.Probes
}

type goldenKey struct {
	module, pattern string
	flags           [3]bool
}

var golden = map[goldenKey]trResult{}

func goldenFor(p *TrPlan, pattern string) (trResult, string) {
	k := goldenKey{p.Module, pattern, [3]bool{p.TypeCheck, p.SrcComments, p.SkipIfaces}}
	if g, ok := golden[k]; ok {
		return g, ""
	}
	q := *p
	q.Patterns = []string{pattern}
	rs, _, perr, res, panics, _ := translate(&q, simrt.Replay(nil, nil), false)
	if perr != "" || len(panics) > 0 || res.Outcome != simrt.Completed || len(rs) != 1 {
		return trResult{}, fmt.Sprintf("golden translation of %s failed: outcome=%v patternErr=%q panics=%v results=%d", pattern, res.Outcome, perr, panics, len(rs))
	}
	golden[k] = rs[0]
	return rs[0], ""
}

type c06 struct{}

func (c06) ID() string { return "C06" }

func (c06) Strategy(rng *simrt.Rand) simrt.Strategy {
	switch rng.Intn(8) {
	case 0:
		return simrt.Strategy{Kind: "uniform"}
	case 1:
		return simrt.Strategy{Kind: "sticky", Den: 8}
	case 2:
		return simrt.Strategy{Kind: "sticky", Den: 64}
	case 3:
		return simrt.Strategy{Kind: "sticky", Den: 512}
	case 4:
		return simrt.Strategy{Kind: "sticky", Den: 4096}
	case 5:
		return simrt.Strategy{Kind: "pct", Depth: 1, EstLen: 20000}
	case 6:
		return simrt.Strategy{Kind: "pct", Depth: 3, EstLen: 20000}
	default:
		return simrt.Strategy{Kind: "pct", Depth: 6, EstLen: 60000}
	}
}

func (c06) Expand(json.RawMessage) []json.RawMessage { return nil }

func (c06) Gen(rng *simrt.Rand, tier string, run int) interface{} {
	setupScratch()
	p := TrPlan{Module: "repo"}
	pool := repoPatterns
	if run%3 == 1 {
		p.Module = "scratch"
		pool = scratchPatterns
	}
	n := 1 + rng.Intn(5)
	if rng.Chance(1, 6) {
		n = 6 + rng.Intn(3)
	}
	if rng.Chance(1, 10) {
		n = 1
	}
	perm := rng.Perm(len(pool))
	for i := 0; i < n && i < len(pool); i++ {
		p.Patterns = append(p.Patterns, pool[perm[i]])
	}
	if rng.Chance(1, 6) && len(p.Patterns) > 1 {
		// a repeated pattern
		p.Patterns = append(p.Patterns, p.Patterns[0])
	}
	p.TypeCheck = rng.Chance(1, 3)
	p.SrcComments = rng.Chance(1, 3)
	p.SkipIfaces = rng.Chance(1, 4)
	return p
}

func (c06) Shrink(pj json.RawMessage) []json.RawMessage {
	var p TrPlan
	json.Unmarshal(pj, &p)
	var out []json.RawMessage
	add := func(q TrPlan) {
		b, _ := json.Marshal(q)
		out = append(out, b)
	}
	for i := range p.Patterns {
		if len(p.Patterns) > 1 {
			q := p
			q.Patterns = append(append([]string{}, p.Patterns[:i]...), p.Patterns[i+1:]...)
			add(q)
		}
	}
	if p.TypeCheck || p.SrcComments || p.SkipIfaces {
		q := p
		q.TypeCheck, q.SrcComments, q.SkipIfaces = false, false, false
		add(q)
	}
	return out
}

func firstDiff(a, b string) string {
	la, lb := strings.Split(a, "\n"), strings.Split(b, "\n")
	for i := 0; i < len(la) || i < len(lb); i++ {
		x, y := "<end>", "<end>"
		if i < len(la) {
			x = la[i]
		}
		if i < len(lb) {
			y = lb[i]
		}
		if x != y {
			return fmt.Sprintf("line %d: %q vs golden %q", i+1, clipStr(x), clipStr(y))
		}
	}
	return "identical"
}

func clipStr(s string) string {
	if len(s) > 160 {
		return s[:160] + "..."
	}
	return s
}

func (c06) Exec(pj json.RawMessage, tape *simrt.Tape, keepLog bool) harness.RunOut {
	var p TrPlan
	if err := json.Unmarshal(pj, &p); err != nil {
		return harness.RunOut{Infra: err.Error()}
	}
	if err := setupScratch(); err != nil {
		return harness.RunOut{Infra: "scratch module: " + err.Error()}
	}
	// goldens first (sequential schedule, identity map order, each package alone)
	gold := map[string]trResult{}
	for _, pat := range p.Patterns {
		g, problem := goldenFor(&p, pat)
		if problem != "" {
			return harness.RunOut{Infra: problem}
		}
		gold[g.pkgPath] = g
	}
	results, loaded, perr, res, panics, probes := translate(&p, tape, keepLog)
	out := harness.RunOut{Fingerprint: res.Fingerprint, Events: res.Events, SimTime: res.SimTime, Probes: probes, Faults: map[string]int{},
		Sched: tape.Sched, Aux: tape.Aux}
	if keepLog {
		// the full event log of a translation is huge: keep the tail
		if len(res.Log) > 400 {
			out.Log = append([]string{fmt.Sprintf("... %d earlier events omitted", len(res.Log)-400)}, res.Log[len(res.Log)-400:]...)
		} else {
			out.Log = res.Log
		}
	}
	out.Sample = map[string]interface{}{"plan": p, "events": res.Events, "switches": res.Switches, "loaded": loaded}
	nPkgs := len(loaded)
	out.NonTrivial = nPkgs >= 2 && res.Switches > nPkgs+2
	if out.NonTrivial {
		out.Probes["workers_interleaved"]++
	}
	out.Probes["real_loader_invocations"] = simpackages.Loads
	fail := func(oracle, msg string) {
		if out.Violation == nil {
			out.Violation = &harness.Violation{Oracle: oracle, Key: oracle, Msg: msg}
		}
	}
	if len(panics) > 0 {
		fail("tr.panic", fmt.Sprintf("translating %v panicked: %s", p.Patterns, strings.Join(panics, "; ")))
		return out
	}
	switch res.Outcome {
	case simrt.Deadlock:
		fail("tr.deadlock", "TranslatePackages never returns: "+res.Detail)
		return out
	case simrt.StepCap:
		out.Inconclusive = "inconclusive-steps"
		return out
	}
	if perr != "" {
		fail("tr.errors", "TranslatePackages reported a pattern error for patterns that load alone: "+perr)
		return out
	}
	if len(results) != nPkgs {
		fail("tr.slot", fmt.Sprintf("%d packages were loaded %v but %d results came back", nPkgs, loaded, len(results)))
		return out
	}
	for i, r := range results {
		g, ok := gold[loaded[i]]
		if !ok {
			fail("tr.slot", fmt.Sprintf("no golden result for loaded package %s", loaded[i]))
			return out
		}
		if r.pkgPath != loaded[i] && !(r.pkgPath == "" && g.pkgPath == "") {
			fail("tr.slot", fmt.Sprintf("result slot %d holds package %q, the loader's package %d is %q (co-translated: %v)", i, r.pkgPath, i, loaded[i], loaded))
			return out
		}
		if r.err != g.err {
			fail("tr.errors", fmt.Sprintf("package %s co-translated with %v: error list differs from translating it alone: %s", loaded[i], loaded, firstDiff(r.err, g.err)))
			return out
		}
		if r.text != g.text {
			fail("tr.output", fmt.Sprintf("package %s co-translated with %v: output differs from translating it alone: %s", loaded[i], loaded, firstDiff(r.text, g.text)))
			return out
		}
		if g.err != "" {
			out.Probes["package_with_errors"]++
		}
	}
	return out
}

func main() {
	harness.Main(map[string]harness.Check{"C06": c06{}})
}
