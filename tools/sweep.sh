#!/bin/bash
# usage: tools/sweep.sh [tier] [checks...]   runs the checks on /repo and prints exit code, INFRA lines and the summary line
tier=${1:-quick}; shift
checks=${@:-C03 C06 C09 C10 C11 C12 C13 C14 C16}
for c in $checks; do
  /verif/check run $c --tier $tier > /tmp/sweep-$c.log 2>&1; rc=$?
  echo "$c rc=$rc infra=$(grep -c '^INFRA' /tmp/sweep-$c.log) viol=$(grep -c '^VIOLATION' /tmp/sweep-$c.log) known=$(grep -c '^KNOWN-FINDING' /tmp/sweep-$c.log) | $(grep "^$c $tier" /tmp/sweep-$c.log | cut -c1-160)"
done
