#!/bin/bash
# usage: tools/regress_refactors.sh [jobs]   every stored behaviour-preserving refactor must leave its checks silent
jobs=${1:-3}
area() { case "$1" in
  RF1-*) echo "C09 C10 C11 C12 C13 C14 C16";; RF2-*) echo "C06 C03";;
  RF3-*|RF6-*|RF9-*) echo "C09 C10 C11";; RF4-*|RF7-*|RF10-*) echo "C12 C13 C14";;
  RF5-1|RF5-2|RF5-3|RF8-1|RF8-2|RF11-1|RF11-2|RF11-3) echo "C16";; RF5-*|RF8-*|RF11-*|RF13-*) echo "C06 C03";;
  RF12-1|RF12-2|RF12-5) echo "C12 C13 C14";; RF12-*) echo "C09 C10 C11";; esac; }
export -f area
ls /verif/refactors | xargs -P $jobs -I{} bash -c 'cks=$(area {}); /verif/tools/try_mutant.sh /verif/refactors/{}/patch.diff quick $cks | sed "s/^/{} /"'
