#!/usr/bin/env python3
"""usage: confirm_mutant.py <agent-out-dir> <seeded-id>
Confirms a seeded change independently in a fresh scratch worktree:
 patch applies, builds, the existing suite passes, the demonstration fails with
 the change and passes without it.  On success stores it as
 /verif/seeded/<seeded-id>/ (patch.diff, demo, meta.json)."""
import json, os, re, shutil, subprocess, sys, tempfile
src, sid = sys.argv[1], sys.argv[2]
meta = json.load(open(os.path.join(src, 'meta.json')))
prop = meta.get('property', sid.split('-')[0])
pkgdir = {'C06':'.','C03':'.','C09':'machine/disk','C10':'machine/disk','C11':'machine/disk','C12':'machine/filesys','C13':'machine/filesys','C14':'machine/filesys','C16':'machine'}.get(prop)
demo = meta['demo'] if isinstance(meta['demo'], str) else json.dumps(meta['demo'])
if 'demo_pkg' in meta: pkgdir = meta['demo_pkg']
m = re.search(r"-run\s+'?\"?([A-Za-z0-9_|^$.*]+)", demo)
runre = m.group(1) if m else '.'
race = ' -race ' in demo.split('(')[0]
env = dict(os.environ, GOFLAGS='-mod=mod', GOPROXY='off', GOSUMDB='off', GOTOOLCHAIN='local')
wt = tempfile.mkdtemp(prefix='cfm-', dir='/tmp'); os.rmdir(wt)
def sh(cmd, **kw):
    return subprocess.run(cmd, shell=True, cwd=kw.get('cwd', wt), env=env, capture_output=True, text=True, timeout=kw.get('timeout', 1500))
res = {}
try:
    r = subprocess.run(['git','-C','/repo','worktree','add','-q',wt,'HEAD'], capture_output=True, text=True)
    assert r.returncode == 0, r.stderr
    res['base_commit'] = subprocess.check_output(['git','-C','/repo','rev-parse','--short','HEAD']).decode().strip()
    r = sh('git apply %s' % os.path.join(os.path.abspath(src), 'patch.diff'))
    assert r.returncode == 0, 'patch does not apply: ' + r.stderr
    r = sh('go build ./... && go test -vet=off -count=1 ./... 2>&1 | tail -30')
    res['suite_with_patch'] = 'pass' if r.returncode == 0 and 'FAIL' not in r.stdout else 'FAIL'
    assert res['suite_with_patch'] == 'pass', 'existing suite fails with the patch:\n' + r.stdout[-2000:]
    demofile = [f for f in os.listdir(src) if f.startswith('demo') and (f.endswith('.go') or f.endswith('.go.txt'))][0]
    shutil.copy(os.path.join(src, demofile), os.path.join(wt, pkgdir, 'zz_seeded_demo_test.go'))
    pkgarg = '.' if pkgdir in ('.', '') else './%s/' % pkgdir
    cmd = 'go test -vet=off -count=1 %s -run %s %s' % ('-race' if race else '', "'%s'" % runre, pkgarg)
    r = sh(cmd, timeout=600)
    res['demo_cmd'] = cmd
    res['demo_with_patch'] = 'fails' if r.returncode != 0 else 'PASSES'
    res['demo_with_patch_output'] = (r.stdout + r.stderr)[-600:]
    assert r.returncode != 0, 'demo passes with the patch'
    sh('git checkout -- .')
    r = sh(cmd, timeout=600)
    res['demo_without_patch'] = 'passes' if r.returncode == 0 else 'FAILS'
    assert r.returncode == 0, 'demo fails without the patch:\n' + (r.stdout + r.stderr)[-1500:]
    dst = os.path.join('/verif/seeded', sid)
    os.makedirs(dst, exist_ok=True)
    shutil.copy(os.path.join(src, 'patch.diff'), dst)
    shutil.copy(os.path.join(src, demofile), os.path.join(dst, 'demo_test.go.txt'))
    meta['confirmed_by_framework_author'] = res
    meta['demo_package_dir'] = pkgdir
    json.dump(meta, open(os.path.join(dst, 'meta.json'), 'w'), indent=1)
    print('CONFIRMED', sid, meta.get('title'))
except AssertionError as e:
    print('REJECTED', sid, str(e)[:800])
except subprocess.TimeoutExpired as e:
    print('REJECTED', sid, 'timeout', e)
finally:
    subprocess.run(['git','-C','/repo','worktree','remove','--force',wt], capture_output=True)
    shutil.rmtree(wt, ignore_errors=True)
