#!/usr/bin/env python3
"""Regenerates /verif/MANIFEST.json from the tables below (kept here so the
manifest is always schema-valid and the claimed/not-applicable lists stay in
sync)."""
import json, os, sys
HERE = os.path.dirname(os.path.dirname(os.path.abspath(__file__)))

NA = {
 "C01": "pure function of (program, input): no schedule, clock, fault, crash point or I/O history in its statement; deciding it needs translation validation against a GooseLang semantics, not simulation",
 "C02": "pure function of the syntax tree (reject-or-faithful over programs): nothing for a scheduler or fault injector to choose",
 "C04": "pure function of declaration order and file split",
 "C05": "pure function of source text and flags (output well-formedness)",
 "C07": "pure function of the input package (never panics)",
 "C08": "pure function of the import graph (header/FFI selection)",
 "C15": "pure function of value and buffer (integer encoding)",
 "C17": "function of sources, flags and the prior output tree; no fault, crash or concurrency in its statement, and it runs `go list` as a real subprocess that cannot be brought inside a simulator",
 "C18": "pure text-to-text function (test_gen)",
}
PENDING_REASON = "check under construction in this session (planned as a simulation check, see DESIGN.md section 8); not claimed until it runs"

TRUST = "Trusted: the simulator is sequentially consistent; simsync models Go's sync semantics; the simulated kernel (simunix) stands for Linux and its durability model is the stated conservative one; oracles are the small reference models in /verif/model."

CHECKS = {
 "C09": dict(cat="exploration", ref="8.1",
   text="Seeded search over single-client operation histories (boundary addresses, wrong-sized buffers, aliasing probes) executed on the real MemDisk/FileDisk code through 8 API routes on the simulated kernel and, for a tenth of the plans, on the real Linux kernel, each compared operation by operation with the register-array model. This is the fault-free configuration of the disk simulator; sampling, not proof.",
   tech="deterministic simulation (fault-free configuration): seeded I/O histories vs executable reference model on simulated and real kernel"),
 "C10": dict(cat="exploration", ref="8.2",
   text="Seeded search over client operation sequences and thread schedules of the real MemDisk/FileDisk code under a deterministic scheduler with yield points before every statement, at every lock operation, system call and inside every block copy; each run's history is checked for torn blocks, per-address linearizability (porcupine) and, in a -race build driven by the same schedules, for happens-before data races. Sampling, not proof.",
   tech="deterministic simulation: seeded schedule search + porcupine linearizability + race detector under controlled schedules"),
 "C11": dict(cat="fault_enumeration", ref="8.3",
   text="For seeded plans, every crash point (before each system call) and every system call x applicable fault (errno, short transfer, ENOSPC) of the real FileDisk code is executed on the simulated kernel with a durability model; reopen rounds cover every prior image length class. Within a plan the fault/crash space is enumerated completely; plans and crash survivors are sampled.",
   tech="deterministic simulation: crash-point and single-fault enumeration on a simulated kernel with durability model, reference-model oracle"),
 "C12": dict(cat="exploration", ref="8.4",
   text="Seeded search over valid single-client filesystem histories (generated against the reference model so that every call respects the documented preconditions) executed on the real MemFs and DirFs code, directly and through the package-level wrappers, on the simulated kernel (with few-entries getdents and high descriptor numbers as buggify) and for a tenth of the plans on the real Linux kernel; every result is compared with the model. Fault-free configuration of the filesystem simulator; sampling, not proof.",
   tech="deterministic simulation (fault-free configuration): seeded I/O histories of three implementations vs executable reference model"),
 "C13": dict(cat="fault_enumeration", ref="8.5",
   text="For seeded prior states (old content, leftover temp files) every crash point between the system calls of the real DirFs.AtomicCreate and every system call x fault kind is executed on the simulated kernel in two journal modes; the destination must be old-or-exactly-new at that moment, after the crash, and exactly the data after a later fault-free call. Concurrent creators and a reader are explored under seeded schedules on DirFs and MemFs (plus the race detector). Two recorded findings (shared temp file name) are reported as KNOWN-FINDING.",
   tech="deterministic simulation: crash-point and single-fault enumeration with a durability model + seeded schedule search for concurrent creators/readers"),
 "C14": dict(cat="exploration", ref="8.6",
   text="Seeded search over concurrent client operation sequences and schedules of the real MemFs/DirFs code under the deterministic scheduler; each history (event-sequence-stamped invoke/return, final read-back of every name) is checked with porcupine against the filesystem reference model, plus distinct-descriptor, no-deadlock and (in a -race build under the same kind of schedules) no-data-race oracles. Sampling, not proof.",
   tech="deterministic simulation: seeded schedule search + porcupine linearizability vs filesystem model + race detector under controlled schedules"),
 "C16": dict(cat="exploration", ref="8.7",
   text="Seeded search over timeout values, call sequences and relative timings of Signal/Broadcast/plain waiters for the real machine.WaitTimeout (and the primitive dependency it delegates to) under testing/synctest's fake clock, and again (sim flavour) with the implementation itself - machine/prims.go and the primitive dependency - compiled against simulated sync, time, channels and select and run under the deterministic scheduler so that every interleaving inside WaitTimeout is decided by the seed: lock held on return, return within 1 ms of simulated time after the timeout or after the wake-up that reaches it, no panic, bubble drains. Decides only the WaitTimeout clause; the three pure clauses (UInt64ToString, MapClear, Assume/Assert) have no schedule, clock or fault in them and are covered only by auxiliary plain assertions that no exploration count includes. One recorded finding (stale waiter after a timed-out call) is reported as KNOWN-FINDING.",
   tech="deterministic simulation: (a) testing/synctest fake clock with seeded timing plans, (b) full simrt simulation of the WaitTimeout implementation (simulated sync/time/channels), both vs an ideal timed-wait model",
   note="Trusted: testing/synctest's fake clock and quiescence detection; goroutine choice inside a bubble is the Go runtime's, events are placed at distinct simulated instants and exact ties are counted as inconclusive. The pure clauses of C16 are not decided by simulation."),
 "C06": dict(cat="exploration", ref="8.8",
   text="Seeded search over sets/orders/repetitions of co-translated packages, flag combinations, schedules of the per-package worker goroutines (yield at every function entry of the real translator and printer) and map-iteration permutations; every package's output and error list must be byte-identical to a golden translation of that package alone on the sequential schedule, in its own result slot; a -race build checks the workers for data races under the same kind of schedules; one plan in sixteen runs the instrumented cmd/goose binary itself (exit status, stderr, written files). Sampling, not proof.",
   tech="deterministic simulation: seeded schedule + map-order + co-translation-set search against sequential golden output, race detector under controlled schedules"),
 "C03": dict(cat="exploration", ref="8.9",
   text="Both sides are simulated: seeded generated race-free concurrent Goose programs run as real Go code under the deterministic scheduler (many schedules each), and the GooseLang text that the goose built from the working tree emits for them runs on an interpreter whose threads are tasks of the same scheduler. Each Go result must be reproduced by the GooseLang program driven along Go's order of synchronisation events (else searched over random interleavings), and schedule-independent programs must return the same value on sampled complete interleavings without cell race, stuck thread or deadlock. One recorded finding (loop variable captured directly) is reported as KNOWN-FINDING.",
   tech="deterministic simulation of both sides: seeded Go schedules, schedule transfer to a GooseLang interpreter, seeded interleaving search with vector-clock race detection",
   note="Trusted: the glang reader/interpreter's reading of GooseLang's library semantics (DESIGN.md appendix C; Perennial is not installed), validated against the 86 semantic test functions shipped with goose; the program generator's shapes; simsync as a model of Go's sync."),
}
DONE = sorted(CHECKS)
ALL = ["C%02d" % i for i in range(1, 19)]
pending = [c for c in ALL if c not in NA and c not in CHECKS]

m = {
 "version": 1,
 "setup_cmd": "./setup.sh",
 "hooks": {"guard": "verif",
   "enable": "no source hooks: every check derives instrumented copies of /repo's files at run time (import substitution sync->simsync, x/sys/unix->simunix; yield points; go-statement, copy and map-range seams) and compiles them in with `go build -overlay`; /repo is never modified by a check",
   "baseline_off_cmd": "cd /repo && go test -vet=off -count=1 -timeout 25m ./...",
   "source_commits": [], "add_only": True},
 "engines": [{"name": "verifcheck", "path": "cmd/verifcheck", "serves_properties": DONE,
   "kind_free_text": "deterministic simulation with fault injection: seeded baton scheduler (simrt), simulated sync (simsync) and kernel (simunix) spliced into /repo's code by an AST-guided text rewriter + go build -overlay; seeded search over schedules, crash points and fault sequences; porcupine for linearizability; Go race detector under the deterministic schedule; minimised replay files"}],
 "checks": [
  {"property_id": c, "quick_cmd": "./check run %s --tier quick" % c, "thorough_cmd": "./check run %s --tier thorough" % c,
   "evidence_file": "evidence/%s.json" % c, "replay_cmd_template": "./check replay {path}", "engine": "verifcheck",
   "level_claimed": {"category": CHECKS[c]["cat"], "text": CHECKS[c]["text"], "design_ref": "DESIGN.md section " + CHECKS[c]["ref"]},
   "level_note": CHECKS[c].get("note", TRUST), "technique": CHECKS[c]["tech"]} for c in DONE],
 "not_applicable": [{"property_id": k, "reason": v} for k, v in sorted(NA.items())] +
                   [{"property_id": k, "reason": PENDING_REASON} for k in pending],
 "notes": "See DESIGN.md. Exit 2 + 'INFRA:' means harness/build trouble, never a violation. VERIF_SEED selects the seed; VERIF_BUDGET_S overrides the thorough budget per property.",
}
json.dump(m, open(os.path.join(HERE, "MANIFEST.json"), "w"), indent=1)
print("claimed:", DONE, "pending:", pending)
