#!/usr/bin/env python3
"""Rewrites the 'Seeded changes' section of DESIGN.md from seeded/*/meta.json."""
import json, os, re
rows = []
for d in sorted(os.listdir('/verif/seeded')):
    m = json.load(open('/verif/seeded/%s/meta.json' % d))
    det = m.get('detection', {}).get('results', {})
    caught = []
    for c, r in sorted(det.items()):
        if r.get('exit') == 1:
            keys = sorted(set(k.split('/')[0] for k in r.get('keys', [])))
            caught.append('%s (%s)' % (c, ', '.join(keys[:3]) + (', ...' if len(keys) > 3 else '')))
    note = m.get('framework_note', '')
    rows.append('| %s | %s | %s | %s |' % (d, (m.get('title') or '').replace('|', '/')[:120], (m.get('needs_to_manifest') or '').replace('|', '/').replace('\n', ' ')[:160], '; '.join(caught) or ('not run yet' if not det else '**missed**') + (' ' + note if note else '')))
sec = '## 14. Seeded changes: which checks catch which\n\n' \
    'Each row is a change to tchajed/goose written by a fresh sub-agent that saw only the property text and a scratch worktree, confirmed by me ' \
    '(applies, builds, the 195 tests pass, its demonstration fails with it and passes without it; `tools/confirm_mutant.py`) and kept under `/verif/seeded/<id>/`. ' \
    '"Caught by" is the result of the quick tier at seed 1 against a scratch worktree with the change applied (`tools/record_detection.py`). ' \
    'Where a change escaped at first, the check was strengthened (section 0) and the run repeated; the table shows the final state.\n\n' \
    '| id | change | needs | caught by (oracles) |\n|---|---|---|---|\n' + '\n'.join(rows) + '\n'
p = '/verif/DESIGN.md'
s = open(p).read()
if '## 14. Seeded changes' in s:
    i = s.index('## 14. Seeded changes')
    j = s.index('\n---\n\n## Appendix A', i) if '\n---\n\n## Appendix A' in s[i:] else s.index('## Appendix A', i)
    s = s[:i] + sec + '\n' + s[j:].lstrip('\n') if not s[j:].startswith('\n---') else s[:i] + sec + s[j:]
else:
    i = s.index('## Appendix A')
    k = s.rfind('---', 0, i)
    s = s[:k] + sec + '\n' + s[k:]
open(p, 'w').write(s)
print(len(rows), 'rows')
