#!/bin/bash
# usage: tools/try_mutant.sh <patch.diff> <tier> <check-id>...
# Applies the patch to a scratch worktree of /repo (outside /repo and /verif),
# runs the given checks against it with VERIF_REPO, prints one verdict line per
# check and removes the worktree with its build output.
patch=$(readlink -f "$1"); tier=$2; shift 2
wt=$(mktemp -d /tmp/mutwt-XXXXXX); out=$(mktemp -d /tmp/mutout-XXXXXX)
rmdir "$wt"
git -C /repo worktree add -q "$wt" HEAD || exit 2
if ! git -C "$wt" apply "$patch"; then echo "PATCH-FAILED $patch"; git -C /repo worktree remove --force "$wt"; exit 2; fi
for c in "$@"; do
  log="$out/$c.log"
  VERIF_REPO="$wt" VERIF_OUT="$out" /verif/check run "$c" --tier "$tier" > "$log" 2>&1
  rc=$?
  v=$(grep -c '^VIOLATION' "$log")
  echo "$c rc=$rc violations=$v $(grep -A1 '^VIOLATION' "$log" | grep oracle= | sed 's/ seen=.*//' | tr '\n' ' ') $(grep '^INFRA' "$log" | head -2 | cut -c1-200)"
  if [ -n "$KEEP_LOG" ]; then cp "$log" "$KEEP_LOG.$c.log"; fi
done
git -C /repo worktree remove --force "$wt"; rm -rf "$out"
