#!/usr/bin/env python3
"""usage: record_detection.py [seeded-id ...]   (default: all under /verif/seeded)
Runs the quick check(s) of the seeded change's property (plus neighbours)
against a scratch worktree with the change applied and records the verdicts in
seeded/<id>/meta.json under "detection"."""
import json, os, re, subprocess, sys, concurrent.futures
NEIGH = {'C09':['C09','C10'],'C10':['C10','C09'],'C11':['C11','C10','C09'],'C12':['C12','C14'],'C13':['C13','C12','C14'],'C14':['C14','C12'],'C16':['C16'],'C06':['C06'],'C03':['C03']}
ids = sys.argv[1:] or sorted(os.listdir('/verif/seeded'))
def one(sid):
    d = os.path.join('/verif/seeded', sid)
    meta = json.load(open(os.path.join(d, 'meta.json')))
    prop = sid.split('-')[0]
    out = subprocess.run(['/verif/tools/try_mutant.sh', os.path.join(d, 'patch.diff'), 'quick'] + NEIGH[prop], capture_output=True, text=True).stdout
    det = {}
    for line in out.splitlines():
        m = re.match(r'(C\d+) rc=(\d+) violations=(\d+)\s*(.*)', line)
        if m:
            keys = re.findall(r'key=(\S+)', m.group(4))
            det[m.group(1)] = {'exit': int(m.group(2)), 'violations': int(m.group(3)), 'keys': keys, 'infra': 'INFRA' in m.group(4)}
    meta['detection'] = {'tier': 'quick', 'seed': int(os.environ.get('VERIF_SEED', '1')), 'results': det,
                         'caught': any(v['exit'] == 1 for v in det.values())}
    json.dump(meta, open(os.path.join(d, 'meta.json'), 'w'), indent=1)
    return sid, det
with concurrent.futures.ThreadPoolExecutor(max_workers=int(os.environ.get('JOBS', '3'))) as ex:
    for sid, det in ex.map(one, ids):
        print(sid, {k: (v['exit'], v['keys']) for k, v in det.items()})
