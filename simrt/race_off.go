//go:build !race

package simrt

const RaceEnabled = false

func RaceErrors() int { return 0 }

func parkTask(t *Task) { <-t.wake }

func postTask(s *Sim, t *Task) {
	s.reqCh <- t
	<-t.wake
}

func exitTask(s *Sim, t *Task) { s.reqCh <- t }

func resumeTask(s *Sim, t *Task) {
	t.wake <- struct{}{}
	t2 := <-s.reqCh
	if t2 != t {
		panic("simrt: request from a task that does not hold the baton")
	}
}
