//go:build race

package simrt

import "runtime"

// RaceEnabled reports whether this binary was built with -race.
const RaceEnabled = true

// RaceErrors is the number of race reports so far in this process.
func RaceErrors() int { return runtime.RaceErrors() }

// The four hand-off primitives. Synchronisation events on the hand-off
// channels are hidden from ThreadSanitizer (RaceDisable only suppresses
// synchronisation events, not memory accesses), so that no happens-before edge
// is created between tasks by the simulator itself.

//go:norace
func parkTask(t *Task) {
	runtime.RaceDisable()
	<-t.wake
	runtime.RaceEnable()
}

//go:norace
func postTask(s *Sim, t *Task) {
	runtime.RaceDisable()
	s.reqCh <- t
	<-t.wake
	runtime.RaceEnable()
}

//go:norace
func exitTask(s *Sim, t *Task) {
	runtime.RaceDisable()
	s.reqCh <- t
	runtime.RaceEnable()
}

//go:norace
func resumeTask(s *Sim, t *Task) {
	runtime.RaceDisable()
	t.wake <- struct{}{}
	t2 := <-s.reqCh
	runtime.RaceEnable()
	if t2 != t {
		panic("simrt: request from a task that does not hold the baton")
	}
}
