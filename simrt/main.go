package simrt

import (
	"encoding/json"
	"fmt"
	"os"
)

// MainTape is the file format through which a whole-binary simulation
// receives its tape (VERIF_SIM_TAPE) and reports what happened (VERIF_SIM_OUT).
type MainTape struct {
	Sched   []int32  `json:"sched"`
	Aux     []int32  `json:"aux"`
	Seed    uint64   `json:"seed"` // 0: replay only (beyond the recorded choices: sequential)
	Strat   Strategy `json:"strategy"`
	Outcome string   `json:"outcome,omitempty"`
	// results
	Fingerprint uint64   `json:"fingerprint,omitempty"`
	Events      int64    `json:"events,omitempty"`
	Switches    int      `json:"switches,omitempty"`
	Tasks       int      `json:"tasks,omitempty"`
	Panics      []string `json:"panics,omitempty"`
}

var mainSim *Sim

//go:norace
func writeMainOut(outcome string, res *Result) {
	path := os.Getenv("VERIF_SIM_OUT")
	if path == "" || mainSim == nil {
		return
	}
	mt := MainTape{Sched: mainSim.Tape.Sched, Aux: mainSim.Tape.Aux, Outcome: outcome, Events: mainSim.Seq, Switches: mainSim.switches, Tasks: len(mainSim.tasks), Fingerprint: mainSim.hash}
	if res != nil {
		mt.Fingerprint = res.Fingerprint
	}
	for _, t := range mainSim.tasks {
		if t.PanicVal != nil {
			mt.Panics = append(mt.Panics, fmt.Sprintf("%s: %v", t.Name, t.PanicVal))
		}
	}
	b, _ := json.Marshal(mt)
	os.WriteFile(path, b, 0644)
}

// Main runs a program's real main function as task 0 of a simulation when
// VERIF_SIM_TAPE names a tape file, and plainly otherwise.
func Main(f func()) {
	path := os.Getenv("VERIF_SIM_TAPE")
	if path == "" {
		f()
		return
	}
	b, err := os.ReadFile(path)
	var mt MainTape
	if err == nil {
		err = json.Unmarshal(b, &mt)
	}
	if err != nil {
		fmt.Fprintln(os.Stderr, "INFRA: simrt.Main: cannot read tape:", err)
		os.Exit(97)
	}
	var tape *Tape
	if mt.Seed != 0 {
		tape = ReplayThenRandom(mt.Sched, mt.Aux, NewRand(mt.Seed), mt.Strat)
	} else {
		tape = Replay(mt.Sched, mt.Aux)
	}
	s := New(Config{Tape: tape, MaxSteps: 100_000_000, PathNames: true, DaemonsOK: true})
	mainSim = s
	// When main returns a Go program exits, whatever its other goroutines are
	// doing: do the same from inside the root task.
	res := s.Run(func() {
		f()
		writeMainOut("main-returned", nil)
		os.Exit(0)
	})
	writeMainOut(res.Outcome.String(), &res)
	for _, t := range s.tasks {
		if t.PanicVal != nil {
			// what the Go runtime does for an uncaught panic
			fmt.Fprintf(os.Stderr, "panic: %v\n\ngoroutine %s [running]:\n", t.PanicVal, t.Name)
			os.Exit(2)
		}
	}
	if res.Outcome == Deadlock {
		fmt.Fprintln(os.Stderr, "fatal error: all goroutines are asleep - deadlock!")
		os.Exit(2)
	}
}

// Exit replaces os.Exit in a simulated binary: it saves the run's tape first.
func Exit(code int) {
	if mainSim != nil {
		writeMainOut(fmt.Sprintf("exit(%d)", code), nil)
	}
	os.Exit(code)
}
