package simrt

import (
	"fmt"
	"sort"
	"unsafe"
)

// ---- Yield ---------------------------------------------------------------

//go:norace
func yieldH(s *Sim, t *Task, r *Req) Status {
	s.Ev(t, "y", r.I0, 0)
	s.minor = true
	s.Tape.noteSite(t.ID, r.I0)
	if d := s.cfg.StallDen; d > 0 && s.Tape != nil && s.Tape.Choose(d) == 0 {
		// a stalled thread: the clock moves on while the task sits between two
		// statements (pre-emption, a page fault, a slow machine)
		ns := [...]int64{1, 1_000, 1_000_000, 10_000_000}[s.Tape.Choose(4)]
		s.Now += ns
		s.Stalled += ns
		s.Ev(t, "stall", ns, 0)
	}
	return Done
}

//go:norace
func syncPointH(s *Sim, t *Task, r *Req) Status {
	s.Ev(t, "sp", r.I0, 0)
	return Done
}

// SyncPoint is a scheduling point at a synchronisation operation that the
// simulator does not model itself (an atomic, a sync.Map call): a major point
// for the strategies that only switch at synchronisation.
//
//go:norace
func SyncPoint(tag int) {
	if cur == nil {
		return
	}
	var r Req
	r.I0 = int64(tag)
	Call(syncPointH, &r)
}

// Yield is a scheduling point inserted by the rewriter before statements.
// site identifies the source position (file index<<20 | line).
//
//go:norace
func Yield(site int) {
	if cur == nil {
		return
	}
	var r Req
	r.I0 = int64(site)
	Call(yieldH, &r)
}

// ---- Go --------------------------------------------------------------------

//go:norace
func spawnH(s *Sim, t *Task, r *Req) Status {
	nt := r.X.(*Task)
	if s.cfg.PathNames && nt.Name == "" {
		nt.Name = fmt.Sprintf("%s.%d", t.Name, t.nkids)
	}
	s.addTask(nt)
	s.Sync(t, "fork", nil, int64(t.nkids))
	t.nkids++
	s.Ev(t, "go", int64(nt.ID), 0)
	return Done
}

// Go starts fn as a new simulated task (the rewriter's replacement for the go
// statement). Outside a simulation it is a plain go statement.
//
//go:norace
func Go(fn func()) {
	s := cur
	if s == nil {
		go fn()
		return
	}
	if Unwinding() {
		return
	}
	t := &Task{fn: fn, wake: make(chan struct{})}
	s.wg.Add(1)
	go s.taskMain(t) // real go statement: gives TSan the parent->child edge Go promises
	var r Req
	r.X = t
	Call(spawnH, &r)
}

// GoNamed is Go with a task name for logs.
//
//go:norace
func GoNamed(name string, fn func()) {
	s := cur
	if s == nil {
		go fn()
		return
	}
	if Unwinding() {
		return
	}
	t := &Task{fn: fn, wake: make(chan struct{}), Name: name}
	s.wg.Add(1)
	go s.taskMain(t)
	var r Req
	r.X = t
	Call(spawnH, &r)
}

// ---- Stamp -----------------------------------------------------------------

//go:norace
func stampH(s *Sim, t *Task, r *Req) Status {
	r.R0 = s.Seq
	r.R1 = s.Now
	r.I2 = s.Stalled
	s.Ev(t, "stamp", r.I0, 0)
	return Done
}

// StampClock is Stamp together with the simulated time and the stall time
// injected so far, all three read at the same instant.
//
//go:norace
func StampClock(tag int) (seq, now, stalled int64) {
	var r Req
	r.I0 = int64(tag)
	Call(stampH, &r)
	return r.R0, r.R1, r.I2
}

// Stamp returns the global event sequence number; histories use it for
// invoke/return times so that operations never tie. tag is logged.
//
//go:norace
func Stamp(tag int) int64 {
	var r Req
	r.I0 = int64(tag)
	Call(stampH, &r)
	return r.R0
}

// ---- Copy (non-atomic block copy) -------------------------------------------

//go:norace
func chooseH(s *Sim, t *Task, r *Req) Status {
	r.R0 = int64(s.Tape.Choose(int(r.I0)))
	s.Ev(t, "choose", r.I0, r.R0)
	return Done
}

// Choose draws a value in [0,n) from the auxiliary tape stream.
//
//go:norace
func Choose(n int) int {
	if cur == nil || n <= 1 {
		return 0
	}
	var r Req
	r.I0 = int64(n)
	Call(chooseH, &r)
	return int(r.R0)
}

// Copy replaces the builtin copy on slices: a memcpy is not atomic, so it
// copies a tape-chosen prefix, yields, then copies the rest.
func Copy[E any](dst, src []E) int {
	n := len(dst)
	if len(src) < n {
		n = len(src)
	}
	if cur == nil || n < 2 || Unwinding() || overlaps(dst[:n], src[:n]) {
		// overlapping operands: the builtin has memmove semantics, which a copy
		// in two parts would not preserve
		return copy(dst, src)
	}
	// split points are biased to 0 (atomic), and a few interior points
	var k int
	switch Choose(4) {
	case 0:
		k = n
	case 1:
		k = n / 2
	case 2:
		k = 1
	default:
		k = 1 + Choose(n-1)
	}
	copy(dst[:k], src[:k])
	if k < n {
		Yield(-1)
		copy(dst[k:n], src[k:n])
	}
	return n
}

// overlaps reports whether two non-empty slices share memory.
func overlaps[E any](a, b []E) bool {
	if len(a) == 0 || len(b) == 0 {
		return false
	}
	sz := unsafe.Sizeof(a[0])
	if sz == 0 {
		return false
	}
	a0 := uintptr(unsafe.Pointer(&a[0]))
	b0 := uintptr(unsafe.Pointer(&b[0]))
	return a0 < b0+uintptr(len(b))*sz && b0 < a0+uintptr(len(a))*sz
}

// ---- Time --------------------------------------------------------------------

//go:norace
func sleepH(s *Sim, t *Task, r *Req) Status {
	if r.I1 == 0 {
		r.I1 = 1
		t.WakeAt = s.Now + r.I0
		if r.I0 <= 0 {
			t.WakeAt = 0
			s.Ev(t, "sleep0", 0, 0)
			return Done
		}
		t.BlockedOn = "sleep"
		return Block
	}
	s.Ev(t, "slept", r.I0, s.Now)
	return Done
}

// Sleep suspends the task for ns of simulated time.
//
//go:norace
func Sleep(ns int64) {
	var r Req
	r.I0 = ns
	Call(sleepH, &r)
}

//go:norace
func nowH(s *Sim, t *Task, r *Req) Status {
	r.R0 = s.Now
	s.Ev(t, "now", s.Now, 0)
	return Done
}

// NowNs reads the simulated clock.
//
//go:norace
func NowNs() int64 {
	var r Req
	Call(nowH, &r)
	return r.R0
}

// StalledNs is the simulated time injected by stalls so far (Config.StallDen).
//
//go:norace
func StalledNs() int64 {
	if cur == nil {
		return 0
	}
	return cur.Stalled
}

// ---- Probes ------------------------------------------------------------------

//go:norace
func probeH(s *Sim, t *Task, r *Req) Status {
	s.Probes[r.S0]++
	return Done
}

// Probe counts a named rare event ("this branch was reached").
//
//go:norace
func Probe(name string) {
	if cur == nil {
		return
	}
	var r Req
	r.S0 = name
	Call(probeH, &r)
}

// ---- Map iteration order -------------------------------------------------------

//go:norace
func permH(s *Sim, t *Task, r *Req) Status {
	n := int(r.I0)
	p := r.IS // allocated by the task, filled here by plain stores
	for i := range p {
		p[i] = int64(i)
	}
	// Fisher-Yates from the aux stream; an all-zero tape gives a fixed
	// (rotated) order, a recorded tape replays the same permutation.
	for i := n - 1; i > 0; i-- {
		j := s.Tape.Choose(i + 1)
		p[i], p[j] = p[j], p[i]
	}
	s.Ev(t, "perm", r.I0, 0)
	return Done
}

// MapKeys returns the keys of m in a canonical order permuted by the tape:
// the seam for Go's randomised map iteration.
func MapKeys[M ~map[K]V, K comparable, V any](m M) []K {
	keys := make([]K, 0, len(m))
	for k := range m {
		keys = append(keys, k)
	}
	strs := make([]string, len(keys))
	for i, k := range keys {
		strs[i] = fmt.Sprintf("%#v", k)
	}
	idx := make([]int, len(keys))
	for i := range idx {
		idx[i] = i
	}
	sort.Slice(idx, func(a, b int) bool { return strs[idx[a]] < strs[idx[b]] })
	sorted := make([]K, len(keys))
	for i, j := range idx {
		sorted[i] = keys[j]
	}
	if cur == nil || len(sorted) < 2 || Unwinding() {
		return sorted
	}
	var r Req
	r.I0 = int64(len(sorted))
	r.IS = make([]int64, len(sorted))
	Call(permH, &r)
	p := r.IS
	out := make([]K, len(sorted))
	for i := range out {
		out[i] = sorted[p[i]]
	}
	return out
}

// ---- generic blocking ------------------------------------------------------------

//go:norace
func waitUntilH(s *Sim, t *Task, r *Req) Status {
	pred := r.X.(func() bool)
	if !pred() {
		if r.I1 == 0 {
			r.I1 = 1
			s.EvS(t, "wait", r.S0)
		}
		t.Ready = waitUntilReady
		t.BlockedOn = r.S0
		return Block
	}
	s.EvS(t, "proceed", r.S0)
	return Done
}

//go:norace
func waitUntilReady(s *Sim, t *Task) bool { return t.req.X.(func() bool)() }

// WaitUntil parks the calling task until pred() holds. pred is evaluated on the
// scheduler goroutine while no task runs; it must only read state that tasks
// modify while holding the baton. Not for use under the race detector.
func WaitUntil(desc string, pred func() bool) {
	var r Req
	r.S0 = desc
	r.X = pred
	Call(waitUntilH, &r)
}

// CurrentTask returns the running task (for interpreters that keep per-thread
// state keyed by task).
//
//go:norace
func CurrentTask() *Task {
	if cur == nil {
		return nil
	}
	return cur.running
}

// ---- gates: closure-free blocking, safe under the race detector ----------------------

// Gate is a one-shot latch a task can wait on. It is opened by whichever task
// makes the waiter runnable. All accesses go through //go:norace code, so the
// race detector sees neither the simulator's reads (on the scheduler goroutine)
// nor an artificial happens-before edge.
type Gate struct{ open bool }

//go:norace
func (g *Gate) Open() { g.open = true }

//go:norace
func (g *Gate) IsOpen() bool { return g.open }

//go:norace
func gateH(s *Sim, t *Task, r *Req) Status {
	g := (*Gate)(r.P)
	if !g.open {
		if r.I1 == 0 {
			r.I1 = 1
			s.EvS(t, "wait", r.S0)
		}
		t.Ready = gateReady
		t.BlockedOn = r.S0
		return Block
	}
	s.EvS(t, "proceed", r.S0)
	return Done
}

//go:norace
func gateReady(s *Sim, t *Task) bool { return (*Gate)(t.req.P).open }

// WaitGate parks the calling task until g is open.
//
//go:norace
func WaitGate(desc string, g *Gate) {
	var r Req
	r.P = unsafe.Pointer(g)
	r.S0 = desc
	Call(gateH, &r)
}
