// Package simrt is the deterministic simulation runtime: every simulated thread
// is a real goroutine that is parked except while it holds the baton; a single
// scheduler goroutine owns all simulator state and decides, from one Tape, who
// runs next. Hand-offs between tasks and the scheduler are hidden from the race
// detector (see race_on.go) so that ThreadSanitizer sees exactly the
// happens-before edges the code under test creates and nothing else.
package simrt

import (
	"fmt"
	"strings"
	"sync"
	"unsafe"
)

// Status is what a Handler returns.
type Status int

const (
	Done  Status = iota // the request completed
	Block               // the task must wait; Handler set t.Ready; it is re-invoked when chosen
)

// Handler executes one request atomically on the scheduler goroutine.
// Handlers must be top-level //go:norace functions.
type Handler func(s *Sim, t *Task, r *Req) Status

// Req carries the arguments and results of one request. It is written by the
// task and read by the scheduler only inside //go:norace code.
type Req struct {
	I0, I1, I2, I3 int64
	P              unsafe.Pointer
	B              []byte
	IS             []int64
	S0, S1         string
	X              interface{}
	// results
	R0, R1 int64
	E      int64
	RB     []byte
	RS     []string
}

// Outcome of a Run.
type Outcome int

const (
	Completed Outcome = iota
	Deadlock
	StepCap
	Crashed
)

func (o Outcome) String() string {
	return [...]string{"completed", "deadlock", "step-cap", "crashed"}[o]
}

// Task is one simulated thread.
type Task struct {
	ID   int
	Name string

	fn   func()
	wake chan struct{}

	h   Handler
	req *Req

	pending bool // h/req must be (re-)executed when the task is chosen
	// Ready reports whether a blocked task could make progress now.
	Ready func(s *Sim, t *Task) bool
	// WakeAt, when >0, is a simulated-time deadline after which Ready is
	// evaluated again (timers).
	WakeAt int64
	// BlockedOn is a human-readable description for deadlock reports.
	BlockedOn string

	nkids     int
	exited    bool
	abort     bool
	unwinding bool
	started   bool
	// PanicVal is the value a task's function panicked with (nil if none).
	PanicVal interface{}
}

// Config for one simulation.
type Config struct {
	Tape     *Tape
	MaxSteps int  // 0 = 20000
	KeepLog  bool // keep the decoded event log (replay / samples)
	// CrashAtEvent, when >0, crashes the run as soon as Seq reaches it.
	CrashAtEvent int64
	// Pick, when set, replaces the tape for scheduling decisions: it receives
	// the runnable tasks (current first when curFirst) and returns an index,
	// or -1 to let the tape decide. Used for guided (schedule-transfer) runs.
	Pick func(opts []*Task, curFirst bool) int
	// DaemonsOK: when the root task has returned and every remaining task is
	// blocked for ever, the run is complete (they are background goroutines of
	// the code under test, as when a Go program's main returns) instead of a
	// deadlock.
	DaemonsOK bool
	// StallDen, when >0, makes one yield in StallDen a stall: simulated time
	// advances by a tape-chosen 1 ns .. 10 ms while the task stands still
	// (Sim.Stalled accumulates it, so that time bounds can allow for it).
	StallDen int
	// PathNames names tasks by spawn path ("0", "0.0", "0.1", "0.0.0", ...).
	PathNames bool
	// TraceSync records synchronisation events (fork, acquire, release,
	// wg-add, wg-wait, exit) for schedule transfer.
	TraceSync bool
}

// SyncEv is one synchronisation event of a run (see glang.SyncEvent).
type SyncEv struct {
	Thread string
	Kind   string
	Obj    int
	N      int64
}

// Sim is one simulation. At most one is active per process.
type Sim struct {
	cfg     Config
	Tape    *Tape
	tasks   []*Task
	running *Task
	reqCh   chan *Task
	wg      sync.WaitGroup

	Seq          int64 // global event sequence number
	Now          int64 // simulated time, ns
	Stalled      int64 // simulated time injected by stalls (Config.StallDen)
	minor        bool  // set by the yield handler: the request just handled was a plain yield
	hash         uint64
	log          []string
	outcome      Outcome
	detail       string
	aborted      bool
	crashNow     bool
	leftover     int
	abortQuietly bool
	switches     int

	// Services lets sim packages (simsync, simunix, ...) hang their
	// scheduler-owned state off the simulation.
	Services map[string]interface{}
	// Kern and SyncOrd are direct slots (tasks may read Kern from norace code;
	// a map would be a race-detector-visible shared object).
	Kern    interface{}
	SyncOrd interface{}

	// SyncTrace is the recorded synchronisation events (Config.TraceSync).
	SyncTrace []SyncEv
	syncObjs  map[unsafe.Pointer]int

	// Probes counts named rare events; Faults counts fired faults.
	Probes map[string]int
	Faults map[string]int
}

var cur *Sim

type abortPanic struct{}

// IsAbort reports whether a recovered value is the simulator's unwinding panic.
func IsAbort(v interface{}) bool { _, ok := v.(abortPanic); return ok }

// New creates a simulation.
func New(cfg Config) *Sim {
	if cfg.MaxSteps == 0 {
		cfg.MaxSteps = 20000
	}
	s := &Sim{cfg: cfg, Tape: cfg.Tape, reqCh: make(chan *Task),
		hash:     14695981039346656037,
		Services: map[string]interface{}{}, Probes: map[string]int{}, Faults: map[string]int{}}
	return s
}

// Active returns the running simulation or nil.
//
//go:norace
func Active() *Sim { return cur }

// Result of a phase.
type Result struct {
	Outcome     Outcome
	Detail      string
	Fingerprint uint64
	Events      int64
	SimTime     int64
	Switches    int
	Log         []string
	// Leftover: daemon tasks that were still blocked when the root had returned
	// (Config.DaemonsOK); they have been unwound
	Leftover int
}

// Run executes root as task 0 (plus everything it spawns) until all tasks have
// finished, deadlocked, crashed or hit the step cap. It may be called several
// times on one Sim (phases: e.g. crash then recovery); services persist.
func (s *Sim) Run(root func()) Result {
	if cur != nil && cur != s {
		panic("simrt: another simulation is active")
	}
	cur = s
	s.tasks = nil
	s.running = nil
	s.aborted = false
	s.crashNow = false
	s.abortQuietly = false
	s.leftover = 0
	s.outcome = Completed
	s.detail = ""
	t := &Task{fn: root, wake: make(chan struct{}), Name: "root"}
	if s.cfg.PathNames {
		t.Name = "0"
	}
	s.addTask(t)
	s.wg.Add(1)
	go s.taskMain(t)
	done := make(chan struct{})
	s.startScheduler(done)
	<-done
	s.wg.Wait() // visible: every task's writes -> caller
	cur = nil
	if s.leftover > 0 {
		leftoverRuns++
	}
	return Result{Outcome: s.outcome, Detail: s.detail, Fingerprint: s.hash, Events: s.Seq,
		SimTime: s.Now, Switches: s.switches, Log: s.log, Leftover: s.leftover}
}

// leftoverRuns counts the phases of this OS process that ended with daemon
// tasks still blocked (Config.DaemonsOK). Those tasks are unwound, but whatever
// package-level state of the code under test refers to them (a started
// sync.Once, a channel they served) stays behind: the process no longer
// resembles a fresh one, and the harness re-checks in a fresh process whatever
// it observes afterwards.
var leftoverRuns int64

// LeftoverRuns reports how many phases of this process left daemons behind.
func LeftoverRuns() int64 { return leftoverRuns }

// startScheduler exists so that the scheduler goroutine's creation stack names
// it: a race report involving that goroutine is a harness artefact.
func (s *Sim) startScheduler(done chan struct{}) {
	go func() {
		s.loop()
		close(done) // visible to the race detector: scheduler state -> caller
	}()
}

func (s *Sim) addTask(t *Task) {
	t.ID = len(s.tasks)
	if t.Name == "" {
		t.Name = fmt.Sprintf("t%d", t.ID)
	}
	s.tasks = append(s.tasks, t)
}

//go:norace
func (s *Sim) taskMain(t *Task) {
	defer s.wg.Done()
	parkTask(t)
	if !t.abort {
		s.runTaskFn(t)
	}
	t.h = nil
	t.req = nil
	t.exited = true
	exitTask(s, t)
}

//go:norace
func (s *Sim) runTaskFn(t *Task) {
	defer func() {
		if r := recover(); r != nil {
			if !IsAbort(r) {
				t.PanicVal = r
			}
		}
	}()
	t.fn()
}

// Call submits a request to the scheduler and parks the calling task until it
// is chosen again. It must be called from a task goroutine.
//
//go:norace
func Call(h Handler, r *Req) {
	s := cur
	if s == nil {
		panic("simrt.Call outside a simulation")
	}
	t := s.running
	if t == nil {
		panic("simrt.Call with no running task")
	}
	if t.unwinding {
		return
	}
	t.h = h
	t.req = r
	postTask(s, t)
	if t.abort {
		t.unwinding = true
		panic(abortPanic{})
	}
}

// Unwinding reports whether the calling task is being torn down (crash,
// deadlock or step cap); sim packages use it to turn into no-ops.
//
//go:norace
func Unwinding() bool {
	s := cur
	return s != nil && s.running != nil && s.running.unwinding
}

//go:norace
func (s *Sim) loop() {
	for {
		t := s.pick()
		if t == nil {
			break
		}
		if s.running != t {
			s.switches++
		}
		s.running = t
		if t.pending {
			st := t.h(s, t, t.req)
			if s.Tape != nil {
				s.Tape.major = true
			}
			if st == Block {
				// Ready lied; treat as still blocked.
				continue
			}
			t.pending = false
			t.Ready = nil
			t.WakeAt = 0
			t.BlockedOn = ""
			s.Seq++
		}
		t.started = true
		resumeTask(s, t)
		s.handle(t)
	}
	if s.outcome != Completed || s.abortQuietly {
		s.abortAll()
	}
}

//go:norace
func (s *Sim) handle(t *Task) {
	if t.exited {
		if !s.aborted {
			s.Sync(t, "exit", nil, 0)
		}
		return
	}
	s.minor = false
	st := t.h(s, t, t.req)
	if s.Tape != nil {
		s.Tape.major = !s.minor // a plain yield is a minor point, everything else (sync, go, I/O) a major one
	}
	if st == Block {
		t.pending = true
		return
	}
	s.Seq++
}

// runnable lists tasks that can run now, current task first.
//
//go:norace
func (s *Sim) runnable() (opts []*Task, curFirst bool) {
	if r := s.running; r != nil && !r.exited && s.canRun(r) {
		opts = append(opts, r)
		curFirst = true
	}
	for _, t := range s.tasks {
		if t == s.running || t.exited {
			continue
		}
		if s.canRun(t) {
			opts = append(opts, t)
		}
	}
	return
}

//go:norace
func (s *Sim) canRun(t *Task) bool {
	if !t.pending {
		return true
	}
	if t.Ready != nil && t.Ready(s, t) {
		return true
	}
	if t.WakeAt > 0 && s.Now >= t.WakeAt {
		return true
	}
	return false
}

//go:norace
func (s *Sim) pick() *Task {
	for {
		if s.crashNow || (s.cfg.CrashAtEvent > 0 && s.Seq >= s.cfg.CrashAtEvent) {
			s.outcome = Crashed
			s.detail = fmt.Sprintf("crash at event %d", s.Seq)
			return nil
		}
		if s.Seq >= int64(s.cfg.MaxSteps) {
			s.outcome = StepCap
			s.detail = fmt.Sprintf("step cap %d reached", s.cfg.MaxSteps)
			return nil
		}
		opts, curFirst := s.runnable()
		if len(opts) > 0 {
			if s.cfg.Pick != nil {
				if i := s.cfg.Pick(opts, curFirst); i >= 0 && i < len(opts) {
					return opts[i]
				}
			}
			ids := make([]int, len(opts))
			for i, t := range opts {
				ids[i] = t.ID
			}
			return opts[s.Tape.sched(ids, curFirst)]
		}
		// nobody runnable: advance the clock to the next timer
		next := int64(0)
		live := 0
		for _, t := range s.tasks {
			if t.exited {
				continue
			}
			live++
			if t.pending && t.WakeAt > 0 && (next == 0 || t.WakeAt < next) {
				next = t.WakeAt
			}
		}
		if live == 0 {
			return nil
		}
		if next > 0 {
			s.Now = next
			continue
		}
		if s.cfg.DaemonsOK && len(s.tasks) > 0 && s.tasks[0].exited {
			// the root has returned: whatever is still blocked is a background
			// goroutine of the code under test (a worker waiting on its channel),
			// exactly what remains when a Go program's main returns
			s.outcome = Completed
			s.leftover = live
			s.abortQuietly = true
			return nil
		}
		s.outcome = Deadlock
		var w []string
		for _, t := range s.tasks {
			if !t.exited {
				w = append(w, fmt.Sprintf("%s waits on %s", t.Name, t.BlockedOn))
			}
		}
		s.detail = strings.Join(w, "; ")
		return nil
	}
}

//go:norace
func (s *Sim) abortAll() {
	s.aborted = true
	for i := 0; i < len(s.tasks); i++ {
		t := s.tasks[i]
		if t.exited {
			continue
		}
		t.abort = true
		s.running = t
		resumeTask(s, t)
		if !t.exited {
			panic("simrt: aborted task posted a request instead of exiting")
		}
	}
}

// TriggerCrash makes the run end as crashed at the next decision point.
// For handlers.
//
//go:norace
func (s *Sim) TriggerCrash() { s.crashNow = true }

// Ev mixes an event into the run's fingerprint (and the decoded log when kept).
// For handlers; runs on the scheduler goroutine.
//
//go:norace
func (s *Sim) Ev(t *Task, op string, a, b int64) {
	h := s.hash
	id := int64(-1)
	if t != nil {
		id = int64(t.ID)
	}
	for _, v := range [...]int64{s.Seq, id, a, b} {
		for i := 0; i < 8; i++ {
			h ^= uint64(byte(v >> (8 * i)))
			h *= 1099511628211
		}
	}
	for i := 0; i < len(op); i++ {
		h ^= uint64(op[i])
		h *= 1099511628211
	}
	s.hash = h
	if s.cfg.KeepLog {
		name := "-"
		if t != nil {
			name = t.Name
		}
		s.log = append(s.log, fmt.Sprintf("%d %s %s %d %d", s.Seq, name, op, a, b))
	}
}

// EvS is Ev with a free-form detail string (hashed too).
//
//go:norace
func (s *Sim) EvS(t *Task, op string, detail string) {
	s.Ev(t, op, int64(HashString(detail)>>1), 0)
	if s.cfg.KeepLog && len(s.log) > 0 {
		s.log[len(s.log)-1] += " " + detail
	}
}

// KeepLog reports whether the decoded log is being kept.
func (s *Sim) KeepLog() bool { return s.cfg.KeepLog }

// Tasks returns the tasks of the current phase (for handlers).
func (s *Sim) Tasks() []*Task { return s.tasks }

// ReqP returns the P field of the task's pending request (for Ready funcs).
//
//go:norace
func (t *Task) ReqP() unsafe.Pointer { return t.req.P }

// ReqX returns the X field of the task's pending request (for Ready funcs).
//
//go:norace
func (t *Task) ReqX() interface{} { return t.req.X }

// PendingReq returns the task's pending request.
//
//go:norace
func (t *Task) PendingReq() *Req { return t.req }

// Sync records a synchronisation event; obj identifies the lock / waitgroup
// (its ordinal is assigned by first appearance in the trace). For handlers.
//
//go:norace
func (s *Sim) Sync(t *Task, kind string, obj unsafe.Pointer, n int64) {
	if !s.cfg.TraceSync {
		return
	}
	o := 0
	if obj != nil {
		if s.syncObjs == nil {
			s.syncObjs = map[unsafe.Pointer]int{}
		}
		v, ok := s.syncObjs[obj]
		if !ok {
			v = len(s.syncObjs)
			s.syncObjs[obj] = v
		}
		o = v
	} else if kind == "fork" {
		o = int(n)
		n = 0
	}
	s.SyncTrace = append(s.SyncTrace, SyncEv{Thread: t.Name, Kind: kind, Obj: o, N: n})
}
