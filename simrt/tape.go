package simrt

// Strategy says how schedule choices are drawn when the tape is recording.
// The recorded result is always an explicit list of choices, so a replay does
// not depend on the strategy.
type Strategy struct {
	Kind   string // "uniform", "sticky", "pct", "syncpct", "rare", "seq"
	Den    int    // sticky: switch with probability 1/Den; rare: demote with probability 1/Den
	Depth  int    // pct: number of priority change points; rare: a site is rare while it has run at most Depth times
	EstLen int    // pct: estimated number of decision points
}

// Tape is the single source of every choice a simulated run makes.
//
// Sched holds the scheduler's choices (index into the option list at each
// decision point with more than one option; 0 = keep running the current task
// when it is runnable). Aux holds all other choices (copy split points, map
// permutations, crash survivors, kernel buggify). When a stream is exhausted
// the next value is drawn from Rng if it is set and 0 otherwise; every value
// used is appended, so after a run Sched/Aux are exactly what happened.
type Tape struct {
	Sched []int32
	Aux   []int32
	Rng   *Rand
	Strat Strategy

	spos, apos int
	// pct state
	prio    map[int]int
	changes map[int]bool
	nextLow int
	ndec    int
	// major: the decision about to be made follows a synchronisation operation
	// (set by the scheduler); nmajor counts such decisions
	major  bool
	nmajor int
	// rare state: executions per yield site, tasks to demote at the next decision
	siteCount map[int64]int
	demote    map[int]bool
}

// noteSite is told every statement-level yield. Under the "rare" strategy --
// strict priorities as in PCT, but with the priority change points placed
// where the program is at a RARELY executed site rather than at uniformly
// random steps -- the task standing at a site that has run at most Depth times
// is, with probability 1/Den, demoted below everyone else. A window that opens
// between two statements executed once or twice per run (check, then act) is
// hit with constant probability however many thousand steps the run has, where
// uniform change points need about as many runs as the run has steps.
func (tp *Tape) noteSite(task int, site int64) {
	if tp == nil || tp.Strat.Kind != "rare" || tp.Rng == nil || tp.spos < len(tp.Sched) {
		return
	}
	if tp.siteCount == nil {
		tp.siteCount = map[int64]int{}
		tp.demote = map[int]bool{}
	}
	tp.siteCount[site]++
	max, den := tp.Strat.Depth, tp.Strat.Den
	if max < 1 {
		max = 3
	}
	if den < 2 {
		den = 2
	}
	if tp.siteCount[site] <= max && tp.Rng.Intn(den) == 0 {
		tp.demote[task] = true
	}
}

func NewTape(rng *Rand, st Strategy) *Tape {
	return &Tape{Rng: rng, Strat: st}
}

// Replay makes a tape that replays the given streams and then answers 0.
func Replay(sched, aux []int32) *Tape {
	return &Tape{Sched: append([]int32(nil), sched...), Aux: append([]int32(nil), aux...)}
}

// ReplayThenRandom replays the given streams and then draws from rng.
func ReplayThenRandom(sched, aux []int32, rng *Rand, st Strategy) *Tape {
	t := Replay(sched, aux)
	t.Rng = rng
	t.Strat = st
	return t
}

// Choose draws from the auxiliary stream: a value in [0,n).
func (tp *Tape) Choose(n int) int {
	if n <= 1 {
		return 0
	}
	if tp.apos < len(tp.Aux) {
		v := int(tp.Aux[tp.apos]) % n
		if v < 0 {
			v = 0
		}
		tp.Aux[tp.apos] = int32(v)
		tp.apos++
		return v
	}
	v := 0
	if tp.Rng != nil {
		v = tp.Rng.Intn(n)
	}
	tp.Aux = append(tp.Aux, int32(v))
	tp.apos++
	return v
}

// sched draws a scheduling choice among n options; ids are the task ids of the
// options (option 0 is the current task when curFirst).
func (tp *Tape) sched(ids []int, curFirst bool) int {
	n := len(ids)
	if n <= 1 {
		return 0
	}
	tp.ndec++
	if tp.spos < len(tp.Sched) {
		v := int(tp.Sched[tp.spos]) % n
		if v < 0 {
			v = 0
		}
		tp.Sched[tp.spos] = int32(v)
		tp.spos++
		return v
	}
	v := 0
	if tp.Rng != nil {
		switch tp.Strat.Kind {
		case "seq":
			v = 0
		case "sticky":
			den := tp.Strat.Den
			if den < 2 {
				den = 2
			}
			if !curFirst || tp.Rng.Intn(den) == 0 {
				if curFirst {
					v = 1 + tp.Rng.Intn(n-1)
				} else {
					v = tp.Rng.Intn(n)
				}
			}
		case "pct", "rare":
			v = tp.pct(ids, curFirst)
		case "syncpct":
			// PCT as published: threads are only pre-empted at synchronisation
			// operations, and the Depth change points are drawn among those
			// (EstLen of them), not among all steps. Between two of them a
			// thread runs undisturbed however long it computes.
			if !tp.major && curFirst {
				v = 0
			} else {
				if tp.major {
					tp.nmajor++
				}
				v = tp.pct(ids, curFirst)
			}
		default:
			v = tp.Rng.Intn(n)
		}
	}
	tp.Sched = append(tp.Sched, int32(v))
	tp.spos++
	return v
}

func (tp *Tape) pct(ids []int, curFirst bool) int {
	if tp.prio == nil {
		tp.prio = map[int]int{}
		tp.changes = map[int]bool{}
		est := tp.Strat.EstLen
		if est < 8 {
			est = 8
		}
		if tp.Strat.Kind == "pct" || tp.Strat.Kind == "syncpct" {
			for i := 0; i < tp.Strat.Depth; i++ {
				tp.changes[1+tp.Rng.Intn(est)] = true
			}
		}
		tp.nextLow = -1
	}
	for id := range tp.demote {
		tp.prio[id] = tp.nextLow
		tp.nextLow--
		delete(tp.demote, id)
	}
	for _, id := range ids {
		if _, ok := tp.prio[id]; !ok {
			tp.prio[id] = 1 + tp.Rng.Intn(1<<20)
		}
	}
	step := tp.ndec
	if tp.Strat.Kind == "syncpct" {
		step = tp.nmajor
		if !tp.major {
			step = -1
		}
	}
	if tp.changes[step] && curFirst {
		tp.prio[ids[0]] = tp.nextLow
		tp.nextLow--
		delete(tp.changes, step)
	}
	best := 0
	for i, id := range ids {
		if tp.prio[id] > tp.prio[ids[best]] {
			best = i
		}
	}
	return best
}

// Used reports how many entries of each stream were consumed.
func (tp *Tape) Used() (sched, aux int) { return tp.spos, tp.apos }
