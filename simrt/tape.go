package simrt

// Strategy says how schedule choices are drawn when the tape is recording.
// The recorded result is always an explicit list of choices, so a replay does
// not depend on the strategy.
type Strategy struct {
	Kind   string // "uniform", "sticky", "pct", "seq"
	Den    int    // sticky: switch with probability 1/Den
	Depth  int    // pct: number of priority change points
	EstLen int    // pct: estimated number of decision points
}

// Tape is the single source of every choice a simulated run makes.
//
// Sched holds the scheduler's choices (index into the option list at each
// decision point with more than one option; 0 = keep running the current task
// when it is runnable). Aux holds all other choices (copy split points, map
// permutations, crash survivors, kernel buggify). When a stream is exhausted
// the next value is drawn from Rng if it is set and 0 otherwise; every value
// used is appended, so after a run Sched/Aux are exactly what happened.
type Tape struct {
	Sched []int32
	Aux   []int32
	Rng   *Rand
	Strat Strategy

	spos, apos int
	// pct state
	prio    map[int]int
	changes map[int]bool
	nextLow int
	ndec    int
}

func NewTape(rng *Rand, st Strategy) *Tape {
	return &Tape{Rng: rng, Strat: st}
}

// Replay makes a tape that replays the given streams and then answers 0.
func Replay(sched, aux []int32) *Tape {
	return &Tape{Sched: append([]int32(nil), sched...), Aux: append([]int32(nil), aux...)}
}

// ReplayThenRandom replays the given streams and then draws from rng.
func ReplayThenRandom(sched, aux []int32, rng *Rand, st Strategy) *Tape {
	t := Replay(sched, aux)
	t.Rng = rng
	t.Strat = st
	return t
}

// Choose draws from the auxiliary stream: a value in [0,n).
func (tp *Tape) Choose(n int) int {
	if n <= 1 {
		return 0
	}
	if tp.apos < len(tp.Aux) {
		v := int(tp.Aux[tp.apos]) % n
		if v < 0 {
			v = 0
		}
		tp.Aux[tp.apos] = int32(v)
		tp.apos++
		return v
	}
	v := 0
	if tp.Rng != nil {
		v = tp.Rng.Intn(n)
	}
	tp.Aux = append(tp.Aux, int32(v))
	tp.apos++
	return v
}

// sched draws a scheduling choice among n options; ids are the task ids of the
// options (option 0 is the current task when curFirst).
func (tp *Tape) sched(ids []int, curFirst bool) int {
	n := len(ids)
	if n <= 1 {
		return 0
	}
	tp.ndec++
	if tp.spos < len(tp.Sched) {
		v := int(tp.Sched[tp.spos]) % n
		if v < 0 {
			v = 0
		}
		tp.Sched[tp.spos] = int32(v)
		tp.spos++
		return v
	}
	v := 0
	if tp.Rng != nil {
		switch tp.Strat.Kind {
		case "seq":
			v = 0
		case "sticky":
			den := tp.Strat.Den
			if den < 2 {
				den = 2
			}
			if !curFirst || tp.Rng.Intn(den) == 0 {
				if curFirst {
					v = 1 + tp.Rng.Intn(n-1)
				} else {
					v = tp.Rng.Intn(n)
				}
			}
		case "pct":
			v = tp.pct(ids, curFirst)
		default:
			v = tp.Rng.Intn(n)
		}
	}
	tp.Sched = append(tp.Sched, int32(v))
	tp.spos++
	return v
}

func (tp *Tape) pct(ids []int, curFirst bool) int {
	if tp.prio == nil {
		tp.prio = map[int]int{}
		tp.changes = map[int]bool{}
		est := tp.Strat.EstLen
		if est < 8 {
			est = 8
		}
		for i := 0; i < tp.Strat.Depth; i++ {
			tp.changes[1+tp.Rng.Intn(est)] = true
		}
		tp.nextLow = -1
	}
	for _, id := range ids {
		if _, ok := tp.prio[id]; !ok {
			tp.prio[id] = 1 + tp.Rng.Intn(1<<20)
		}
	}
	if tp.changes[tp.ndec] && curFirst {
		tp.prio[ids[0]] = tp.nextLow
		tp.nextLow--
	}
	best := 0
	for i, id := range ids {
		if tp.prio[id] > tp.prio[ids[best]] {
			best = i
		}
	}
	return best
}

// Used reports how many entries of each stream were consumed.
func (tp *Tape) Used() (sched, aux int) { return tp.spos, tp.apos }
