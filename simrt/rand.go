package simrt

// Rand is a small, self-contained PRNG (splitmix64 seeding a xoshiro256**).
// Nothing in the framework ever consults math/rand, the clock or map order.
type Rand struct{ s [4]uint64 }

func splitmix(x *uint64) uint64 {
	*x += 0x9e3779b97f4a7c15
	z := *x
	z = (z ^ (z >> 30)) * 0xbf58476d1ce4e5b9
	z = (z ^ (z >> 27)) * 0x94d049bb133111eb
	return z ^ (z >> 31)
}

// Mix derives an independent stream seed from a seed and a list of labels.
func Mix(seed uint64, labels ...uint64) uint64 {
	x := seed
	v := splitmix(&x)
	for _, l := range labels {
		x ^= l * 0xd6e8feb86659fd93
		v ^= splitmix(&x)
	}
	return v
}

// HashString is FNV-64a, used to turn check ids into labels.
func HashString(s string) uint64 {
	h := uint64(14695981039346656037)
	for i := 0; i < len(s); i++ {
		h ^= uint64(s[i])
		h *= 1099511628211
	}
	return h
}

func NewRand(seed uint64) *Rand {
	r := &Rand{}
	x := seed
	for i := range r.s {
		r.s[i] = splitmix(&x)
	}
	return r
}

func rotl(x uint64, k uint) uint64 { return (x << k) | (x >> (64 - k)) }

func (r *Rand) Uint64() uint64 {
	s := &r.s
	res := rotl(s[1]*5, 7) * 9
	t := s[1] << 17
	s[2] ^= s[0]
	s[3] ^= s[1]
	s[1] ^= s[2]
	s[0] ^= s[3]
	s[2] ^= t
	s[3] = rotl(s[3], 45)
	return res
}

// Intn returns a value in [0,n). n<=0 yields 0.
func (r *Rand) Intn(n int) int {
	if n <= 1 {
		return 0
	}
	return int(r.Uint64() % uint64(n))
}

// Chance returns true with probability num/den.
func (r *Rand) Chance(num, den int) bool { return r.Intn(den) < num }

// Pick returns one of the given ints.
func (r *Rand) Pick(xs ...int) int { return xs[r.Intn(len(xs))] }

func (r *Rand) PickU64(xs ...uint64) uint64 { return xs[r.Intn(len(xs))] }

func (r *Rand) Perm(n int) []int {
	p := make([]int, n)
	for i := range p {
		p[i] = i
	}
	for i := n - 1; i > 0; i-- {
		j := r.Intn(i + 1)
		p[i], p[j] = p[j], p[i]
	}
	return p
}

func (r *Rand) PickStr(xs ...string) string { return xs[r.Intn(len(xs))] }
