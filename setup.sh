#!/bin/bash
# Offline setup: build the orchestrator and warm the build cache (plain and
# -race standard library, driver dependencies) so that checks start quickly.
cd "$(dirname "$0")" || exit 2
export GOFLAGS=-mod=mod GOPROXY=off GOSUMDB=off GOTOOLCHAIN=local GOWORK=off
mkdir -p bin evidence replays
go build -o bin/verifcheck ./cmd/verifcheck || exit 2
go build -o /dev/null ./drivers/machdrv ./drivers/c06drv ./drivers/c03drv || exit 2
go build -race -o /dev/null ./drivers/machdrv ./drivers/c06drv ./drivers/c03drv || exit 2
GOTOOLCHAIN=local /opt/veriftools/go1.26.8/bin/go test -c -vet=off -o /dev/null ./drivers/c16drv || exit 2
echo "setup ok"
