// Package simtime replaces "time" in the translator under test: Now returns a
// different, tape-derived instant on every call, so output that embeds a
// timestamp differs between the golden and a simulated run.
package simtime

import (
	"time"

	"verif/simrt"
)

type (
	Time     = time.Time
	Duration = time.Duration
	Month    = time.Month
	Weekday  = time.Weekday
	Location = time.Location
)

const (
	Nanosecond  = time.Nanosecond
	Microsecond = time.Microsecond
	Millisecond = time.Millisecond
	Second      = time.Second
	Minute      = time.Minute
	Hour        = time.Hour
	RFC3339     = time.RFC3339
	RFC3339Nano = time.RFC3339Nano
	RFC1123     = time.RFC1123
	Kitchen     = time.Kitchen
	ANSIC       = time.ANSIC
	UnixDate    = time.UnixDate
	DateTime    = time.DateTime
	DateOnly    = time.DateOnly
	TimeOnly    = time.TimeOnly
	Stamp       = time.Stamp
)

var (
	UTC   = time.UTC
	Local = time.UTC
	Unix  = time.Unix
	Date  = time.Date
	Parse = time.Parse
)

var calls int64

// Now: simulated clock plus a tape-derived jitter plus a per-call counter.
func Now() Time {
	calls++
	if simrt.Active() == nil {
		return time.Unix(1_000_000_000+calls, 0).UTC()
	}
	j := simrt.Choose(1 << 20)
	return time.Unix(1_000_000_000+simrt.NowNs()/1e9+int64(j)*3600+calls, int64(j)).UTC()
}

func Since(t Time) Duration { return Now().Sub(t) }
func Until(t Time) Duration { return t.Sub(Now()) }

func Sleep(d Duration) {
	if simrt.Active() == nil {
		return
	}
	simrt.Sleep(int64(d))
}
