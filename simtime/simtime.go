// Package simtime replaces "time" in code under test. Now, Sleep, timers and
// tickers read the simulated clock of simrt. With Jitter set (the translator
// check, where no arithmetic is done on instants) Now instead returns a
// different, tape-derived instant on every call, so that output which embeds a
// timestamp differs between the golden and a simulated run.
package simtime

import (
	"os"
	"sync"
	"time"

	"verif/simchan"
	"verif/simrt"
)

type (
	Time     = time.Time
	Duration = time.Duration
	Month    = time.Month
	Weekday  = time.Weekday
	Location = time.Location
)

const (
	Nanosecond  = time.Nanosecond
	Microsecond = time.Microsecond
	Millisecond = time.Millisecond
	Second      = time.Second
	Minute      = time.Minute
	Hour        = time.Hour
	RFC3339     = time.RFC3339
	RFC3339Nano = time.RFC3339Nano
	RFC1123     = time.RFC1123
	Kitchen     = time.Kitchen
	ANSIC       = time.ANSIC
	UnixDate    = time.UnixDate
	DateTime    = time.DateTime
	DateOnly    = time.DateOnly
	TimeOnly    = time.TimeOnly
	Stamp       = time.Stamp
)

var (
	UTC   = time.UTC
	Local = time.UTC
	Unix  = time.Unix
	Date  = time.Date
	Parse = time.Parse
)

var calls int64

// Jitter makes Now return wildly different instants on every call (see the
// package comment); off, Now is the monotonic simulated clock.
var Jitter = os.Getenv("VERIF_TIME_JITTER") == "1"

// Now: the simulated clock; with Jitter, plus a tape-derived offset of up to
// 120 years and a per-call counter.
func Now() Time {
	if !Jitter {
		if simrt.Active() == nil {
			return time.Unix(1_000_000_000, 0).UTC()
		}
		return time.Unix(1_000_000_000, 0).UTC().Add(time.Duration(simrt.NowNs()))
	}
	calls++
	if simrt.Active() == nil {
		return time.Unix(1_000_000_000+calls, 0).UTC()
	}
	j := simrt.Choose(1 << 20)
	return time.Unix(1_000_000_000+simrt.NowNs()/1e9+int64(j)*3600+calls, int64(j)).UTC()
}

func Since(t Time) Duration { return Now().Sub(t) }
func Until(t Time) Duration { return t.Sub(Now()) }

func Sleep(d Duration) {
	if simrt.Active() == nil {
		return
	}
	simrt.Sleep(int64(d))
}

// ---- timers (channel-based, on the simulated clock) ---------------------------------

// Timer mirrors time.Timer with a simulated channel.
type Timer struct {
	C  *simchan.Chan[Time]
	st *timerState
	f  func()
}

// timerState is shared between the timer's task and Stop/Reset; the real mutex
// is never contended (one task runs at a time) and gives the race detector the
// edges a runtime timer has.
type timerState struct {
	mu             sync.Mutex
	stopped, fired bool
}

func startTimer(d Duration, c *simchan.Chan[Time], f func()) *Timer {
	st := &timerState{}
	t := &Timer{C: c, st: st, f: f}
	simrt.GoNamed("timer", func() {
		if d > 0 {
			simrt.Sleep(int64(d))
		} else {
			simrt.Yield(-40)
		}
		st.mu.Lock()
		if st.stopped {
			st.mu.Unlock()
			return
		}
		st.fired = true
		st.mu.Unlock()
		if f != nil {
			f()
			return
		}
		// like the runtime: a timer channel has capacity 1 and the send never blocks
		sel := simchan.NewSelect()
		simchan.OnSend(sel, c, Unix(1_000_000_000+simrt.NowNs()/1e9, simrt.NowNs()%1e9).UTC())
		sel.Wait(true)
	})
	return t
}

// After is time.After on the simulated clock.
func After(d Duration) *simchan.Chan[Time] {
	c := simchan.Make[Time](1)
	startTimer(d, c, nil)
	return c
}

// NewTimer is time.NewTimer.
func NewTimer(d Duration) *Timer { return startTimer(d, simchan.Make[Time](1), nil) }

// AfterFunc is time.AfterFunc: f runs in its own task after d.
func AfterFunc(d Duration, f func()) *Timer { return startTimer(d, nil, f) }

// Stop prevents the timer from firing; it reports whether it stopped it.
func (t *Timer) Stop() bool {
	simrt.Yield(-41)
	t.st.mu.Lock()
	defer t.st.mu.Unlock()
	if t.st.fired || t.st.stopped {
		return false
	}
	t.st.stopped = true
	return true
}

// Reset re-arms the timer.
func (t *Timer) Reset(d Duration) bool {
	active := t.Stop()
	nt := startTimer(d, t.C, t.f)
	t.st = nt.st
	return active
}
