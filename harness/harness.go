// Package harness is the generic batch runner shared by all driver binaries:
// seeded plan generation, execution under a tape, minimisation, replay files
// and per-worker result files that cmd/verifcheck merges into evidence.
package harness

import (
	"bytes"
	"encoding/binary"
	"encoding/json"
	"flag"
	"fmt"
	"os"
	"os/exec"
	"path/filepath"
	"sort"
	"strings"
	"time"

	"verif/simrt"
)

// Violation is one oracle failure.
type Violation struct {
	Oracle string `json:"oracle"` // identifier from DESIGN.md appendix F
	Key    string `json:"key"`    // oracle id + discriminating facts (known-findings key)
	Msg    string `json:"msg"`
}

// RunOut is the result of executing one plan under one tape.
type RunOut struct {
	Violation    *Violation
	Fingerprint  uint64
	NonTrivial   bool
	Probes       map[string]int
	Faults       map[string]int
	Events       int64
	SimTime      int64
	Inconclusive string
	Infra        string // harness trouble (never a violation)
	Sched, Aux   []int32
	Log          []string
	Sample       interface{}
	// Tainted: the run left process-wide residue behind (daemon goroutines of
	// the code under test that outlive the simulated process). Runs based on
	// simrt need not set it: RunBatch watches simrt.LeftoverRuns.
	Tainted bool
	// Restart: the residue makes further runs in this OS process meaningless
	// (e.g. channels tied to a finished synctest bubble); continue in a fresh one.
	Restart bool
}

// Check is one property's workload + oracles.
type Check interface {
	ID() string
	// Gen produces the explicit, JSON-marshalable plan of run i.
	Gen(rng *simrt.Rand, tier string, run int) interface{}
	// Expand turns one generated plan into the concrete plans to execute
	// (fault/crash-point enumeration); nil means just the plan itself.
	Expand(plan json.RawMessage) []json.RawMessage
	// Exec runs the plan under the tape and evaluates the oracles.
	Exec(plan json.RawMessage, tape *simrt.Tape, keepLog bool) RunOut
	// Shrink proposes smaller plans.
	Shrink(plan json.RawMessage) []json.RawMessage
	// Strategy picks the scheduling strategy for a run.
	Strategy(rng *simrt.Rand) simrt.Strategy
}

// Replay is the replay-file format.
type Replay struct {
	Property    string          `json:"property"`
	Oracle      string          `json:"oracle"`
	Key         string          `json:"key"`
	Message     string          `json:"message"`
	Seed        uint64          `json:"seed"`
	Run         int             `json:"run"`
	Sub         int             `json:"sub"`
	Tier        string          `json:"tier"`
	Flavour     string          `json:"flavour"`
	RepoTree    string          `json:"repo_tree"`
	Minimised   bool            `json:"minimised"`
	MinimiseLog string          `json:"minimise_log,omitempty"`
	Plan        json.RawMessage `json:"plan"`
	Sched       []int32         `json:"sched"`
	Aux         []int32         `json:"aux"`
	Fingerprint string          `json:"fingerprint"`
	Log         []string        `json:"log,omitempty"`
	// Tainted (marker files only): earlier plans of the dying process had left
	// daemon goroutines behind when this plan started
	Tainted bool `json:"tainted,omitempty"`
}

// WorkerResult is what one worker process reports.
type WorkerResult struct {
	Check        string         `json:"check"`
	Flavour      string         `json:"flavour"`
	Worker       int            `json:"worker"`
	Evaluations  int            `json:"evaluations"`
	Generated    int            `json:"generated"`
	NonTrivial   int            `json:"nontrivial"`
	Events       int64          `json:"events"`
	SimTime      int64          `json:"sim_time_ns"`
	Probes       map[string]int `json:"probes"`
	Faults       map[string]int `json:"faults"`
	Inconclusive map[string]int `json:"inconclusive"`
	Infra        []string       `json:"infra"`
	Violations   []FoundViol    `json:"violations"`
	Samples      []interface{}  `json:"samples"`
	WallS        float64        `json:"wall_s"`
	FpFile       string         `json:"fp_file"`
	NtFpFile     string         `json:"nt_fp_file"`
	RaceErrors   int            `json:"race_errors"`
	FirstRun     int            `json:"first_run"`
	LastRun      int            `json:"last_run"`
	// Continue: this process stopped early because the code under test left
	// process-wide residue; a fresh process takes over at (ContinueRun, ContinueSub)
	Continue    bool `json:"continue,omitempty"`
	ContinueRun int  `json:"continue_run,omitempty"`
	ContinueSub int  `json:"continue_sub,omitempty"`
	Seg         int  `json:"segment,omitempty"`
}

// FoundViol is a violation found by a worker.
type FoundViol struct {
	Violation
	Replay string `json:"replay"`
	Count  int    `json:"count"`
}

const fpCap = 1 << 20

// Opts of a worker.
type Opts struct {
	Seed      uint64
	Tier      string
	Worker    int
	Workers   int
	Runs      int           // total run indices for the whole batch (all workers); 0 = until Budget
	Budget    time.Duration // wall-clock budget for this worker
	OutDir    string
	ReplayDir string
	Flavour   string
	RepoTree  string
	MaxViol   int
	Selftest  bool   // execute every run twice and compare fingerprints
	FpLog     string // write one line per run: run sub fingerprint violation-key
	Marker    bool   // write the plan about to be executed to a marker file (crash attribution)
	// First/FirstSub: where this process takes over (a continuation segment);
	// Seg numbers the segment and goes into the result file names
	First, FirstSub, Seg int
}

func runSeed(seed uint64, id string, run int) uint64 {
	return simrt.Mix(seed, simrt.HashString(id), uint64(run))
}

// flavourID makes the race flavour explore other plans than the plain one.
func flavourID(c Check, o Opts) string {
	if o.Flavour == "race" {
		return c.ID() + "/race"
	}
	return c.ID()
}

// Main is the entry point of a driver binary.
func Main(checks map[string]Check) { MainArgs(os.Args[1:], checks) }

// MainArgs is Main with explicit arguments (test-binary drivers receive them
// through the environment).
func MainArgs(args []string, checks map[string]Check) {
	flag := flag.NewFlagSet("driver", flag.ExitOnError)
	var (
		id      = flag.String("check", "", "check id")
		seed    = flag.Uint64("seed", 1, "VERIF_SEED")
		tier    = flag.String("tier", "quick", "quick|thorough")
		worker  = flag.Int("worker", 0, "worker index")
		workers = flag.Int("workers", 1, "number of workers")
		runs    = flag.Int("runs", 0, "total number of generated plans (0 = until budget)")
		budget  = flag.Duration("budget", 30*time.Second, "wall-clock budget")
		outDir  = flag.String("out", ".", "directory for result files")
		repDir  = flag.String("replays", ".", "directory for replay files")
		flavour = flag.String("flavour", "plain", "plain|race")
		tree    = flag.String("tree", "", "hash of /repo's tree")
		replay  = flag.String("replay", "", "replay file to re-execute")
		try     = flag.String("try", "", "internal: candidate file; exit 1 iff it fails with the same key")
		self    = flag.Bool("selftest", false, "run every plan twice and compare fingerprints")
		one     = flag.Int("one", -1, "execute just this run index verbosely")
		fplog   = flag.String("fplog", "", "write per-run fingerprints to this file")
		marker  = flag.Bool("marker", false, "record the plan about to run, so that a crash of this process can be attributed")
		first   = flag.Int("first", -1, "continuation: first run index of this process")
		firstSb = flag.Int("firstsub", 0, "continuation: first sub-plan of that run")
		seg     = flag.Int("seg", 0, "continuation: segment number")
	)
	flag.Parse(args)
	if *replay != "" {
		os.Exit(DoReplay(checks, *replay, true))
	}
	if *try != "" {
		os.Exit(DoReplay(checks, *try, false))
	}
	c := checks[*id]
	if c == nil {
		fmt.Fprintf(os.Stderr, "INFRA: unknown check %q\n", *id)
		os.Exit(2)
	}
	o := Opts{Seed: *seed, Tier: *tier, Worker: *worker, Workers: *workers, Runs: *runs, Budget: *budget,
		OutDir: *outDir, ReplayDir: *repDir, Flavour: *flavour, RepoTree: *tree, MaxViol: 4, Selftest: *self, FpLog: *fplog, Marker: *marker,
		First: *first, FirstSub: *firstSb, Seg: *seg}
	if *one >= 0 {
		runOne(c, o, *one)
		return
	}
	res := RunBatch(c, o)
	b, _ := json.MarshalIndent(res, "", " ")
	name := filepath.Join(o.OutDir, fmt.Sprintf("result-%s-%s-%d%s.json", c.ID(), o.Flavour, o.Worker, segSuffix(o)))
	if err := os.WriteFile(name, b, 0644); err != nil {
		fmt.Fprintf(os.Stderr, "INFRA: %v\n", err)
		os.Exit(2)
	}
	if len(res.Infra) > 0 {
		os.Exit(2)
	}
}

func runOne(c Check, o Opts, run int) {
	rng := simrt.NewRand(runSeed(o.Seed, flavourID(c, o), run))
	plan := c.Gen(rng, o.Tier, run)
	pj, _ := json.Marshal(plan)
	plans := c.Expand(pj)
	if plans == nil {
		plans = []json.RawMessage{pj}
	}
	for sub, p := range plans {
		tape := simrt.NewTape(simrt.NewRand(simrt.Mix(runSeed(o.Seed, flavourID(c, o), run), uint64(sub), 77)), c.Strategy(rng))
		out := c.Exec(p, tape, true)
		fmt.Printf("run %d sub %d plan %s\n", run, sub, string(p))
		for _, l := range out.Log {
			fmt.Println("  ", l)
		}
		fmt.Printf("  fingerprint %016x nontrivial=%v violation=%+v inconclusive=%q infra=%q\n", out.Fingerprint, out.NonTrivial, out.Violation, out.Inconclusive, out.Infra)
	}
}

// RunBatch executes this worker's share of the batch.
func RunBatch(c Check, o Opts) *WorkerResult {
	start := time.Now()
	res := &WorkerResult{Check: c.ID(), Flavour: o.Flavour, Worker: o.Worker,
		Probes: map[string]int{}, Faults: map[string]int{}, Inconclusive: map[string]int{}, FirstRun: -1}
	fps := map[uint64]struct{}{}
	ntfps := map[uint64]struct{}{}
	seenKeys := map[string]int{}
	deadline := start.Add(o.Budget)
	var fplog *os.File
	if o.FpLog != "" {
		fplog, _ = os.Create(o.FpLog)
		defer fplog.Close()
	}
	res.Seg = o.Seg
	startRun := o.Worker
	if o.First >= 0 {
		startRun = o.First
	}
	stop := false
	for run := startRun; !stop; run += o.Workers {
		if o.Runs > 0 && run >= o.Runs {
			break
		}
		if time.Now().After(deadline) {
			break
		}
		if restartWanted {
			res.Continue, res.ContinueRun, res.ContinueSub = true, run, 0
			break
		}
		if res.FirstRun < 0 {
			res.FirstRun = run
		}
		res.LastRun = run
		rs := runSeed(o.Seed, flavourID(c, o), run)
		rng := simrt.NewRand(rs)
		plan := c.Gen(rng, o.Tier, run)
		pj, err := json.Marshal(plan)
		if err != nil {
			res.Infra = append(res.Infra, "marshal plan: "+err.Error())
			break
		}
		res.Generated++
		strat := c.Strategy(rng)
		plans := c.Expand(pj)
		if plans == nil {
			plans = []json.RawMessage{pj}
		}
		for sub, p := range plans {
			if run == o.First && sub < o.FirstSub {
				continue
			}
			tape := simrt.NewTape(simrt.NewRand(simrt.Mix(rs, uint64(sub), 77)), strat)
			raceBefore := simrt.RaceErrors()
			taintedBefore := processTainted()
			if o.Marker {
				mk := Replay{Property: c.ID(), Oracle: "crash", Key: "crash", Message: "the driver process died while executing this plan", Seed: o.Seed, Run: run, Sub: sub,
					Tier: o.Tier, Flavour: o.Flavour, RepoTree: o.RepoTree, Plan: p, Tainted: taintedBefore}
				mb, _ := json.Marshal(&mk)
				os.WriteFile(filepath.Join(o.OutDir, fmt.Sprintf("marker-%s-%s-%d.json", c.ID(), o.Flavour, o.Worker)), mb, 0644)
			}
			out := execTracked(c, p, tape, false)
			if processTainted() && !taintedBefore {
				res.Probes["runs_that_left_daemons_behind"]++
			}
			if taintedBefore && (out.Violation != nil || simrt.RaceErrors() > raceBefore || out.Infra != "") {
				// Something looks wrong, but this process is no longer like a
				// fresh one: nothing is judged here. A fresh process re-executes
				// exactly this plan first; a real violation shows again there.
				res.Probes["rechecked_in_fresh_process"]++
				res.Continue, res.ContinueRun, res.ContinueSub = true, run, sub
				stop = true
				break
			}
			if d := simrt.RaceErrors() - raceBefore; d > 0 && out.Violation == nil && out.Infra == "" {
				res.RaceErrors += d
				out.Violation = &Violation{Oracle: raceOracle(c.ID()), Key: raceOracle(c.ID()),
					Msg: fmt.Sprintf("%d data race report(s) from the Go race detector in this run (see the worker's race log)", d)}
			}
			if fplog != nil {
				vk := "-"
				if out.Violation != nil {
					vk = out.Violation.Key
				}
				fmt.Fprintf(fplog, "%d %d %016x %s\n", run, sub, out.Fingerprint, vk)
			}
			res.Evaluations++
			res.Events += out.Events
			res.SimTime += out.SimTime
			for k, v := range out.Probes {
				res.Probes[k] += v
			}
			for k, v := range out.Faults {
				res.Faults[k] += v
			}
			if out.Infra != "" {
				res.Infra = append(res.Infra, fmt.Sprintf("run %d.%d: %s", run, sub, out.Infra))
				if len(res.Infra) > 5 {
					break
				}
				continue
			}
			if out.Inconclusive != "" {
				res.Inconclusive[out.Inconclusive]++
			}
			if len(fps) < fpCap {
				fps[out.Fingerprint] = struct{}{}
			}
			if out.NonTrivial {
				res.NonTrivial++
				if len(ntfps) < fpCap {
					ntfps[out.Fingerprint] = struct{}{}
				}
			}
			if len(res.Samples) < 3 && out.Sample != nil && o.Worker == 0 && (out.NonTrivial || run > 20*o.Workers) {
				res.Samples = append(res.Samples, out.Sample)
			}
			if o.Selftest && out.Violation == nil {
				out2 := execTracked(c, p, simrt.Replay(out.Sched, out.Aux), false)
				if out2.Fingerprint != out.Fingerprint {
					res.Infra = append(res.Infra, fmt.Sprintf("run %d.%d: NONDETERMINISM: fingerprints %016x vs %016x", run, sub, out.Fingerprint, out2.Fingerprint))
				}
			}
			if out.Violation != nil {
				v := *out.Violation
				seenKeys[v.Key]++
				if seenKeys[v.Key] > 1 {
					for i := range res.Violations {
						if res.Violations[i].Key == v.Key {
							res.Violations[i].Count++
						}
					}
					continue
				}
				if len(res.Violations) >= o.MaxViol {
					continue
				}
				rp := &Replay{Property: c.ID(), Oracle: v.Oracle, Key: v.Key, Message: v.Msg, Seed: o.Seed, Run: run, Sub: sub,
					Tier: o.Tier, Flavour: o.Flavour, RepoTree: o.RepoTree, Plan: p, Sched: out.Sched, Aux: out.Aux,
					Fingerprint: fmt.Sprintf("%016x", out.Fingerprint)}
				rp = Minimise(c, rp, o)
				path := filepath.Join(o.ReplayDir, fmt.Sprintf("%s-%d-%d-%d-%s.json", c.ID(), o.Seed, run, sub, o.Flavour))
				b, _ := json.MarshalIndent(rp, "", " ")
				os.MkdirAll(o.ReplayDir, 0755)
				if err := os.WriteFile(path, b, 0644); err != nil {
					res.Infra = append(res.Infra, err.Error())
				}
				res.Violations = append(res.Violations, FoundViol{Violation: Violation{Oracle: rp.Oracle, Key: rp.Key, Msg: rp.Message}, Replay: path, Count: 1})
			}
		}
		if len(res.Infra) > 5 {
			break
		}
	}
	res.WallS = time.Since(start).Seconds()
	res.FpFile = writeFps(o, c.ID(), "fp", fps)
	res.NtFpFile = writeFps(o, c.ID(), "ntfp", ntfps)
	return res
}

func raceOracle(id string) string {
	switch id {
	case "C10":
		return "disk.conc.race"
	case "C14", "C12", "C13":
		return "fs.conc.race"
	case "C06":
		return "tr.race"
	}
	return "race"
}

func writeFps(o Opts, id, kind string, set map[uint64]struct{}) string {
	name := filepath.Join(o.OutDir, fmt.Sprintf("%s-%s-%s-%d%s.bin", kind, id, o.Flavour, o.Worker, segSuffix(o)))
	keys := make([]uint64, 0, len(set))
	for k := range set {
		keys = append(keys, k)
	}
	sort.Slice(keys, func(i, j int) bool { return keys[i] < keys[j] })
	buf := make([]byte, 8*len(keys))
	for i, k := range keys {
		binary.LittleEndian.PutUint64(buf[8*i:], k)
	}
	os.WriteFile(name, buf, 0644)
	return name
}

// execFn abstracts "does this candidate fail with the same key?"; race-flavour
// violations need a fresh process because ThreadSanitizer reports each racy
// stack pair only once per process.
func failsSame(c Check, rp *Replay, plan json.RawMessage, sched, aux []int32, o Opts) (bool, RunOut) {
	if strings.HasSuffix(rp.Oracle, "race") || processTainted() {
		cand := *rp
		cand.Plan, cand.Sched, cand.Aux = plan, sched, aux
		f, err := os.CreateTemp(o.OutDir, "cand-*.json")
		if err != nil {
			return false, RunOut{}
		}
		b, _ := json.Marshal(&cand)
		f.Write(b)
		f.Close()
		defer os.Remove(f.Name())
		cmd := exec.Command(os.Args[0], "-try", f.Name())
		cmd.Env = os.Environ()
		outb, _ := cmd.Output()
		if cmd.ProcessState != nil && cmd.ProcessState.ExitCode() == 1 {
			var ro struct {
				Sched, Aux  []int32
				Fingerprint uint64
				Oracle, Msg string
				Log         []string
			}
			json.Unmarshal(outb, &ro)
			return true, RunOut{Sched: ro.Sched, Aux: ro.Aux, Fingerprint: ro.Fingerprint, Log: ro.Log,
				Violation: &Violation{Oracle: ro.Oracle, Key: rp.Key, Msg: ro.Msg}}
		}
		return false, RunOut{}
	}
	out := execTracked(c, plan, simrt.Replay(sched, aux), false)
	return out.Violation != nil && out.Violation.Key == rp.Key, out
}

// ---- process-wide residue ------------------------------------------------------

var (
	taintedFlag   bool
	restartWanted bool
)

// processTainted: some earlier run of this OS process left daemon goroutines of
// the code under test behind (a lazily started worker pool, a reaper). Their
// tasks were unwound with the simulated process, but package-level state still
// refers to them, so later runs here are not judged: violations are re-checked
// in a fresh process and minimisation evaluates its candidates in fresh ones.
func processTainted() bool { return taintedFlag || simrt.LeftoverRuns() > 0 }

func execTracked(c Check, plan json.RawMessage, tape *simrt.Tape, keepLog bool) RunOut {
	out := c.Exec(plan, tape, keepLog)
	if out.Tainted {
		taintedFlag = true
	}
	if out.Restart {
		restartWanted = true
	}
	return out
}

func segSuffix(o Opts) string {
	if o.Seg > 0 {
		return fmt.Sprintf(".%d", o.Seg)
	}
	return ""
}

// Minimise shrinks plan, then schedule, keeping candidates that fail with the
// same key. Bounded by executions and wall-clock.
func Minimise(c Check, rp *Replay, o Opts) *Replay {
	start := time.Now()
	execs := 0
	maxExecs := 400
	maxTime := 90 * time.Second
	isRace := strings.HasSuffix(rp.Oracle, "race")
	if isRace || processTainted() {
		maxExecs = 36
		maxTime = 30 * time.Second
	}
	ok := func() bool { return execs < maxExecs && time.Since(start) < maxTime }
	cur := *rp
	kept := 0
	// confirm it reproduces at all (guards against nondeterminism)
	execs++
	if f, out := failsSame(c, rp, cur.Plan, cur.Sched, cur.Aux, o); !f {
		cur.MinimiseLog = "not minimised: the recorded run did not reproduce in-process"
		return &cur
	} else {
		cur.Sched, cur.Aux = out.Sched, out.Aux
	}
	// 1. plan
	for progress := true; progress && ok(); {
		progress = false
		for _, cand := range c.Shrink(cur.Plan) {
			if !ok() {
				break
			}
			// same tape first, then the sequential tape, then a few random ones
			tapes := [][2][]int32{{cur.Sched, cur.Aux}, {nil, nil}}
			found := false
			for ti, tp := range tapes {
				execs++
				if f, out := failsSame(c, rp, cand, tp[0], tp[1], o); f {
					cur.Plan, cur.Sched, cur.Aux = cand, out.Sched, out.Aux
					found = true
					_ = ti
					break
				}
			}
			if !found && !strings.HasSuffix(rp.Oracle, "race") && !processTainted() {
				for k := 0; k < 3 && ok(); k++ {
					execs++
					tape := simrt.NewTape(simrt.NewRand(simrt.Mix(rp.Seed, uint64(execs), 991)), simrt.Strategy{Kind: "uniform"})
					out := execTracked(c, cand, tape, false)
					if out.Violation != nil && out.Violation.Key == rp.Key {
						cur.Plan, cur.Sched, cur.Aux = cand, out.Sched, out.Aux
						found = true
						break
					}
				}
			}
			if found {
				kept++
				progress = true
				break
			}
		}
	}
	// 2. schedule: truncate, then zero spans
	shrinkStream := func(get func() []int32, set func([]int32)) {
		// truncate by halves
		for ok() {
			s := get()
			if len(s) == 0 {
				break
			}
			done := true
			for _, n := range []int{0, len(s) / 2, len(s) * 3 / 4, len(s) - 1} {
				if n >= len(s) || !ok() {
					continue
				}
				cand := append([]int32(nil), s[:n]...)
				old := get()
				set(cand)
				execs++
				if f, out := failsSame(c, rp, cur.Plan, cur.Sched, cur.Aux, o); f {
					cur.Sched, cur.Aux = out.Sched, out.Aux
					set(trimZeros(get()))
					kept++
					done = false
					break
				}
				set(old)
			}
			if done {
				break
			}
		}
		// zero spans
		for span := 16; span >= 1 && ok(); span /= 2 {
			s := get()
			for i := 0; i < len(s) && ok(); i += span {
				s = get()
				if i >= len(s) {
					break
				}
				e := i + span
				if e > len(s) {
					e = len(s)
				}
				allZero := true
				for _, v := range s[i:e] {
					if v != 0 {
						allZero = false
					}
				}
				if allZero {
					continue
				}
				cand := append([]int32(nil), s...)
				for j := i; j < e; j++ {
					cand[j] = 0
				}
				set(cand)
				execs++
				if f, out := failsSame(c, rp, cur.Plan, cur.Sched, cur.Aux, o); f {
					cur.Sched, cur.Aux = out.Sched, out.Aux
					kept++
				} else {
					set(s)
				}
			}
		}
	}
	if !isRace {
		shrinkStream(func() []int32 { return cur.Sched }, func(v []int32) { cur.Sched = v })
		shrinkStream(func() []int32 { return cur.Aux }, func(v []int32) { cur.Aux = v })
	}
	// final decoded run
	if !strings.HasSuffix(rp.Oracle, "race") && !processTainted() {
		out := execTracked(c, cur.Plan, simrt.Replay(cur.Sched, cur.Aux), true)
		if out.Violation != nil {
			cur.Message = out.Violation.Msg
			cur.Fingerprint = fmt.Sprintf("%016x", out.Fingerprint)
			cur.Log = out.Log
			cur.Sched, cur.Aux = trimZeros(out.Sched), trimZeros(out.Aux)
		}
	} else {
		_, out := failsSame(c, rp, cur.Plan, cur.Sched, cur.Aux, o)
		cur.Fingerprint = fmt.Sprintf("%016x", out.Fingerprint)
		if out.Violation != nil && !isRace {
			cur.Message = out.Violation.Msg
			cur.Log = out.Log
			cur.Sched, cur.Aux = trimZeros(out.Sched), trimZeros(out.Aux)
		}
	}
	cur.Minimised = true
	cur.MinimiseLog = fmt.Sprintf("%d re-executions, %d reductions kept, %.1fs", execs, kept, time.Since(start).Seconds())
	return &cur
}

func trimZeros(s []int32) []int32 {
	n := len(s)
	for n > 0 && s[n-1] == 0 {
		n--
	}
	return s[:n]
}

// DoReplay re-executes a replay file. verbose: print the verdict for humans and
// exit 1 if the violation reproduces with the same key and fingerprint, 0 if
// it does not occur, 3 if something else happens. !verbose (-try): exit 1 iff
// the same key fails; prints the resulting tape as JSON.
func DoReplay(checks map[string]Check, path string, verbose bool) int {
	b, err := os.ReadFile(path)
	if err != nil {
		fmt.Fprintf(os.Stderr, "INFRA: %v\n", err)
		return 2
	}
	var rp Replay
	if err := json.Unmarshal(b, &rp); err != nil {
		fmt.Fprintf(os.Stderr, "INFRA: %v\n", err)
		return 2
	}
	c := checks[rp.Property]
	if c == nil {
		fmt.Fprintf(os.Stderr, "INFRA: unknown check %q\n", rp.Property)
		return 2
	}
	// the file is indented; plans are executed (and fingerprinted) in the
	// compact form in which they were generated
	var compact bytes.Buffer
	if err := json.Compact(&compact, rp.Plan); err == nil {
		rp.Plan = compact.Bytes()
	}
	before := simrt.RaceErrors()
	out := c.Exec(rp.Plan, simrt.Replay(rp.Sched, rp.Aux), true)
	if d := simrt.RaceErrors() - before; d > 0 && out.Violation == nil {
		out.Violation = &Violation{Oracle: raceOracle(c.ID()), Key: raceOracle(c.ID()), Msg: fmt.Sprintf("%d data race report(s)", d)}
	}
	if !verbose {
		if out.Violation != nil && out.Violation.Key == rp.Key {
			j, _ := json.Marshal(struct {
				Sched, Aux  []int32
				Fingerprint uint64
				Oracle, Msg string
				Log         []string
			}{out.Sched, out.Aux, out.Fingerprint, out.Violation.Oracle, out.Violation.Msg, out.Log})
			os.Stdout.Write(j)
			return 1
		}
		return 0
	}
	for _, l := range out.Log {
		fmt.Println("  ", l)
	}
	fp := fmt.Sprintf("%016x", out.Fingerprint)
	switch {
	case out.Infra != "":
		fmt.Printf("INFRA: %s\n", out.Infra)
		return 2
	case out.Violation == nil:
		fmt.Printf("NOT-REPRODUCED property=%s: the replayed run satisfies every oracle (fingerprint %s, recorded %s)\n", rp.Property, fp, rp.Fingerprint)
		return 0
	case out.Violation.Key == rp.Key && fp == rp.Fingerprint:
		fmt.Printf("REPRODUCED property=%s oracle=%s fingerprint=%s\n  %s\n", rp.Property, out.Violation.Oracle, fp, out.Violation.Msg)
		fmt.Printf("VIOLATION property=%s replay=%s\n", rp.Property, path)
		return 1
	case out.Violation.Key == rp.Key:
		fmt.Printf("REPRODUCED-DIFFERENT-TRACE property=%s oracle=%s fingerprint=%s (recorded %s)\n  %s\n", rp.Property, out.Violation.Oracle, fp, rp.Fingerprint, out.Violation.Msg)
		fmt.Printf("VIOLATION property=%s replay=%s\n", rp.Property, path)
		return 1
	default:
		fmt.Printf("DIFFERENT-VIOLATION property=%s oracle=%s key=%s (recorded key %s)\n  %s\n", rp.Property, out.Violation.Oracle, out.Violation.Key, rp.Key, out.Violation.Msg)
		fmt.Printf("VIOLATION property=%s replay=%s\n", rp.Property, path)
		return 1
	}
}
